package main

import (
	"fmt"
	"go/token"
	"go/types"
	"strconv"
	"strings"

	"golang.org/x/tools/go/ssa"
)

func (c *FnCtx) execInstr(fr *Frame, st *State, instr ssa.Instruction) {
	switch i := instr.(type) {
	case *ssa.Alloc:
		t := i.Type().Underlying().(*types.Pointer).Elem()
		if at, isArr := t.Underlying().(*types.Array); isArr {
			// arrays (e.g. the backing store of variadic arguments) live in the element heap like slice backing arrays
			ref := c.newRef(st, fr.fn.Name()+".arr")
			c.nonNil[ref] = true
			h := c.elemHeap(at.Elem())
			zeroArr := fmt.Sprintf("((as const (Array Int %s)) %s)", c.ty.SortOf(at.Elem()), c.ty.Zero(at.Elem()))
			c.heapSet(st, h, "(store "+c.heapGet(st, h)+" "+ref+" "+zeroArr+")")
			c.eng.onAlloc(c, st, ref, nil)
			fr.vals[i] = Val{T: i.Type(), E: ref}
			return
		}
		if !i.Heap {
			key := localKey(fr, i)
			st.locals[key] = Val{T: t, E: c.ty.Zero(t)}
			fr.vals[i] = Val{T: i.Type(), Loc: &Loc{Kind: locLocal, Local: key, RootT: t}}
			return
		}
		ref := c.newRef(st, fr.fn.Name()+"."+i.Comment)
		c.nonNil[ref] = true
		c.eng.onAlloc(c, st, ref, t)
		if !isStructVal(t) && singleStoreCell(i) {
			c.writeOnce[ref] = true
		}
		if isStructVal(t) {
			c.storeStruct(st, t, ref, c.ty.Zero(t))
		} else {
			h := c.cellHeap(t)
			c.heapSet(st, h, "(store "+c.heapGet(st, h)+" "+ref+" "+c.ty.Zero(t)+")")
		}
		nv := Val{T: i.Type(), E: ref}
		if isMessageStruct(t) {
			nv.FreshFrom = ref // a newly allocated message is trivially deep-fresh
		}
		fr.vals[i] = nv
	case *ssa.FieldAddr:
		base := c.val(fr, i.X)
		pt := i.X.Type().Underlying().(*types.Pointer).Elem()
		ft := pt.Underlying().(*types.Struct).Field(i.Field).Type()
		if base.Loc != nil && (base.Loc.Kind != locField || len(base.Loc.Path) > 0) {
			nl := *base.Loc
			nl.Path = append(append([]int(nil), base.Loc.Path...), i.Field)
			fr.vals[i] = Val{T: i.Type(), Loc: &nl}
			return
		}
		ref := base.E
		if base.Loc != nil {
			ref = base.Loc.Ref
		} else {
			c.nilCheck(st, ref, i.Pos())
		}
		if isStructVal(ft) {
			fr.vals[i] = Val{T: i.Type(), E: c.sc.Define("fa", sInt, c.faddr(pt, i.Field, ref))}
			return
		}
		fr.vals[i] = Val{T: i.Type(), Loc: &Loc{Kind: locField, Ref: ref, RootT: pt, Path: []int{i.Field}}}
	case *ssa.Field:
		x := c.val(fr, i.X)
		si := c.ty.structInfoOf(i.X.Type())
		ft := i.X.Type().Underlying().(*types.Struct).Field(i.Field).Type()
		fv := Val{T: ft, E: c.sc.Define("fld", c.ty.SortOf(ft), App(si.fields[i.Field], x.E))}
		if n, ok := i.X.Type().(*types.Named); ok {
			fv.From = n.Obj().Name() + "." + i.X.Type().Underlying().(*types.Struct).Field(i.Field).Name()
		}
		fr.vals[i] = fv
	case *ssa.IndexAddr:
		x := c.val(fr, i.X)
		idx := c.val(fr, i.Index).E
		switch xt := i.X.Type().Underlying().(type) {
		case *types.Slice:
			c.boundsCheck(st, idx, "(s-len "+x.E+")", i.Pos())
			comp := c.elemHeap(xt.Elem())
			fr.vals[i] = Val{T: i.Type(), Loc: &Loc{Kind: locElem, Ref: "(s-arr " + x.E + ")", Idx: c.sc.Define("ix", sInt, "(+ (s-off "+x.E+") "+idx+")"), Comp: comp, RootT: xt.Elem()}}
		case *types.Pointer:
			at, ok := xt.Elem().Underlying().(*types.Array)
			if ok && x.E == "" && x.Loc != nil && x.Loc.Kind == locGlobal && len(x.Loc.Path) == 0 {
				// a package-level array: a fixed backing array in the element heap
				gn := q("garr$" + strings.TrimPrefix(x.Loc.Comp, "const:"))
				c.sc.Decl("garr:"+gn, fmt.Sprintf("(declare-const %s Int)\n(assert (and (> %s 0) (< %s |alloc0|)))", gn, gn, gn))
				x.E = gn
			}
			if !ok || x.E == "" {
				c.unsupported("IndexAddr on %s", i.X.Type())
			}
			c.boundsCheck(st, idx, fmt.Sprint(at.Len()), i.Pos())
			fr.vals[i] = Val{T: i.Type(), Loc: &Loc{Kind: locElem, Ref: x.E, Idx: idx, Comp: c.elemHeap(at.Elem()), RootT: at.Elem()}}
		default:
			c.unsupported("IndexAddr on %s", i.X.Type())
		}
	case *ssa.Index:
		x := c.val(fr, i.X)
		idx := c.val(fr, i.Index).E
		switch xt := i.X.Type().Underlying().(type) {
		case *types.Basic: // string index
			c.boundsCheck(st, idx, "(strlen "+x.E+")", i.Pos())
			f := q("strbyte")
			c.sc.Decl("strbyte", "(declare-fun |strbyte| (Int Int) Int)")
			v := c.sc.Define("sb", sInt, App(f, x.E, idx))
			c.assume(st, "(and (<= 0 "+v+") (<= "+v+" 255))")
			fr.vals[i] = Val{T: i.Type(), E: v}
		default:
			c.unsupported("Index on %s", xt)
		}
	case *ssa.UnOp:
		c.execUnOp(fr, st, i)
	case *ssa.BinOp:
		x, y := c.val(fr, i.X), c.val(fr, i.Y)
		fr.vals[i] = c.binop(st, i.Op, x, y, i.Type(), i.Pos())
	case *ssa.Store:
		addr := c.val(fr, i.Addr)
		v := c.val(fr, i.Val)
		if v.E == "" && v.Loc != nil {
			v.E = c.ptrTerm(v)
		}
		c.store(st, c.ptrLoc(st, addr, i.Pos()), v, i.Pos())
	case *ssa.Convert:
		fr.vals[i] = c.convert(st, c.val(fr, i.X), i.Type(), i.Pos())
	case *ssa.ChangeType:
		v := c.val(fr, i.X)
		nv := v
		nv.T = i.Type()
		if isStructVal(i.Type()) && c.ty.SortOf(i.Type()) != c.ty.SortOf(v.T) {
			// struct conversion between identical underlying types: rebuild
			s1 := c.ty.structInfoOf(v.T)
			s2 := c.ty.structInfoOf(i.Type())
			var args []string
			for k := range s1.fields {
				args = append(args, App(s1.fields[k], v.E))
			}
			nv.E = App(s2.ctor, args...)
		}
		fr.vals[i] = nv
	case *ssa.ChangeInterface:
		v := c.val(fr, i.X)
		v.T = i.Type()
		fr.vals[i] = v
	case *ssa.MakeInterface:
		fr.vals[i] = c.makeInterface(c.val(fr, i.X), i.Type())
	case *ssa.TypeAssert:
		c.typeAssert(fr, st, i)
	case *ssa.Extract:
		t := c.val(fr, i.Tuple)
		if i.Index >= len(t.Tuple) {
			c.unsupported("extract %d of %d-tuple", i.Index, len(t.Tuple))
		}
		fr.vals[i] = t.Tuple[i.Index]
	case *ssa.MakeSlice:
		elem := i.Type().Underlying().(*types.Slice).Elem()
		ln, cp := c.val(fr, i.Len).E, c.val(fr, i.Cap).E
		o := c.obligation(st, "safe", "makeslice", "(and (<= 0 "+ln+") (<= "+ln+" "+cp+"))", i.Pos())
		o.Desc = "make: negative length or len > cap"
		c.assume(st, "(and (<= 0 "+ln+") (<= "+ln+" "+cp+"))")
		arr := c.newRef(st, "arr")
		h := c.elemHeap(elem)
		zeroArr := fmt.Sprintf("((as const (Array Int %s)) %s)", c.ty.SortOf(elem), c.ty.Zero(elem))
		c.heapSet(st, h, "(store "+c.heapGet(st, h)+" "+arr+" "+zeroArr+")")
		c.eng.onAlloc(c, st, arr, nil)
		fr.vals[i] = Val{T: i.Type(), E: c.sc.Define("mk", sSlice, "(mk-slice "+arr+" 0 "+ln+" "+cp+")")}
	case *ssa.Slice:
		c.execSlice(fr, st, i)
	case *ssa.MakeMap:
		mt := i.Type().Underlying().(*types.Map)
		ref := c.newRef(st, "map")
		c.nonNil[ref] = true
		has, val, ln := c.mapHeaps(mt)
		c.heapSet(st, has, "(store "+c.heapGet(st, has)+" "+ref+" ((as const (Array "+c.ty.SortOf(mt.Key())+" Bool)) false))")
		c.heapSet(st, ln, "(store "+c.heapGet(st, ln)+" "+ref+" 0)")
		_ = val
		fr.vals[i] = Val{T: i.Type(), E: ref}
	case *ssa.MapUpdate:
		m := c.val(fr, i.Map)
		mt := i.Map.Type().Underlying().(*types.Map)
		k, v := c.val(fr, i.Key), c.val(fr, i.Value)
		if v.E == "" && v.Loc != nil {
			v.E = c.ptrTerm(v)
		}
		o := c.obligation(st, "safe", "nilmap", "(not (= "+m.E+" 0))", i.Pos())
		o.Desc = "assignment to entry in nil map"
		c.assume(st, "(not (= "+m.E+" 0))")
		c.onMapStep(fr, st, "store", m, k, &v, i.Pos())
		c.eng.onMapWrite(c, st, m.E, i.Pos())
		c.mapStore(st, mt, m.E, k.E, v.E)
	case *ssa.Lookup:
		c.execLookup(fr, st, i)
	case *ssa.MakeClosure:
		fn := i.Fn.(*ssa.Function)
		var bs []Val
		for _, b := range i.Bindings {
			bs = append(bs, c.val(fr, b))
		}
		ref := c.newRef(st, "clo$"+fn.Name())
		c.nonNil[ref] = true
		c.registerClosure(st, ref, fn, bs)
		fr.vals[i] = Val{T: i.Type(), E: ref, Clo: &Closure{Fn: fn, Bindings: bs}}
	case *ssa.MakeChan:
		ref := c.newRef(st, "chan")
		c.nonNil[ref] = true
		c.chanInit(st, ref, c.val(fr, i.Size).E)
		fr.vals[i] = Val{T: i.Type(), E: ref}
	case *ssa.Call:
		res := c.call(fr, st, &i.Call, i, i.Pos())
		if res != nil {
			fr.vals[i] = *res
		}
	case *ssa.Defer:
		st.defers[fr.id] = append(st.defers[fr.id], deferEntry{guard: "true", call: &i.Call, fr: fr, pos: i.Pos()})
		// bind argument values now (Go evaluates them at the defer statement)
	case *ssa.RunDefers:
		ds := st.defers[fr.id]
		st.defers[fr.id] = nil
		for k := len(ds) - 1; k >= 0; k-- {
			d := ds[k]
			c.guarded(st, d.guard, func(gs *State) {
				c.call(d.fr, gs, d.call, nil, d.pos)
			})
		}
	case *ssa.Go:
		c.eng.onGo(c, fr, st, i)
	case *ssa.Send:
		c.chanSend(fr, st, c.val(fr, i.Chan), c.val(fr, i.X), i.Pos())
	case *ssa.Select:
		c.execSelect(fr, st, i)
	case *ssa.Range:
		c.execRange(fr, st, i)
	case *ssa.Next:
		c.execNext(fr, st, i)
	case *ssa.SliceToArrayPointer, *ssa.MultiConvert:
		c.unsupported("%T", instr)
	default:
		c.unsupported("instruction %T", instr)
	}
}

// guarded runs f on a copy of st under an extra guard and merges the effect back into st.
func (c *FnCtx) guarded(st *State, g string, f func(*State)) {
	if g == "true" {
		f(st)
		return
	}
	if g == "false" {
		return
	}
	gs := st.clone()
	gs.guard = c.sc.Define("g", sBool, And(st.guard, g))
	f(gs)
	rest := st.clone()
	rest.guard = c.sc.Define("g", sBool, And(st.guard, Not(g)))
	m := c.mergeStates([]edgeIn{{-1, rest}, {-1, gs}})
	guard := st.guard
	*st = *m
	st.guard = guard
}

func (c *FnCtx) boundsCheck(st *State, idx, ln string, pos token.Pos) {
	g := "(and (<= 0 " + idx + ") (< " + idx + " " + ln + "))"
	o := c.obligation(st, "safe", "index", g, pos)
	o.Desc = "index out of range"
	c.assume(st, g)
}

func (c *FnCtx) execUnOp(fr *Frame, st *State, i *ssa.UnOp) {
	x := c.val(fr, i.X)
	switch i.Op {
	case token.MUL:
		l := c.ptrLoc(st, x, i.Pos())
		c.eng.onLoad(c, st, l, i.Pos())
		mu := c.guardLoad(st, l, i.Pos())
		v := c.load(st, l, i.Type())
		v.T = i.Type()
		c.afterGuardedLoad(st, l, &v, mu)
		if (l.Kind == locField || l.Kind == locLocal) && len(l.Path) == 1 {
			if n, ok := l.RootT.(*types.Named); ok {
				v.From = n.Obj().Name() + "." + l.RootT.Underlying().(*types.Struct).Field(l.Path[0]).Name()
			}
		}
		fr.vals[i] = v
	case token.NOT:
		fr.vals[i] = Val{T: i.Type(), E: Not(x.E)}
	case token.SUB:
		if c.ty.SortOf(i.Type()) == sFlt {
			fr.vals[i] = Val{T: i.Type(), E: c.sc.Define("neg", sFlt, "(fneg "+x.E+")")}
			return
		}
		fr.vals[i] = Val{T: i.Type(), E: c.wrap(i.Type(), "(- "+x.E+")")}
	case token.ARROW:
		fr.vals[i] = c.chanRecv(fr, st, x, i.CommaOk, i.Type(), i.Pos())
	case token.XOR:
		b := i.Type().Underlying().(*types.Basic)
		if b.Info()&types.IsUnsigned != 0 {
			_, hi, _ := intRange(b)
			fr.vals[i] = Val{T: i.Type(), E: c.sc.Define("not", sInt, "(- "+hi+" "+x.E+")")}
		} else {
			fr.vals[i] = Val{T: i.Type(), E: c.sc.Define("not", sInt, "(- (- "+x.E+") 1)")}
		}
	default:
		c.unsupported("unop %s", i.Op)
	}
}

func (c *FnCtx) wrap(t types.Type, e string) string {
	b, ok := t.Underlying().(*types.Basic)
	if !ok {
		return e
	}
	w := wrapFn(b)
	if w == "" {
		return e
	}
	return c.sc.Define("w", sInt, "("+w+" "+e+")")
}

func (c *FnCtx) binop(st *State, op token.Token, x, y Val, resT types.Type, pos token.Pos) Val {
	srt := c.ty.SortOf(x.T)
	mk := func(e string) Val { return Val{T: resT, E: c.sc.Define("b", c.ty.SortOf(resT), e)} }
	if x.E == "" && x.Loc != nil {
		x.E = c.ptrTerm(x)
	}
	if y.E == "" && y.Loc != nil {
		y.E = c.ptrTerm(y)
	}
	switch op {
	case token.EQL, token.NEQ:
		var e string
		switch srt {
		case sFlt:
			e = "(feq " + x.E + " " + y.E + ")"
		default:
			if _, isSlice := x.T.Underlying().(*types.Slice); isSlice {
				// only comparison with nil is legal
				other := x.E
				if x.E == nilSlice {
					other = y.E
				}
				e = "(= (s-arr " + other + ") 0)"
			} else {
				e = Eq(x.E, y.E)
			}
		}
		if op == token.NEQ {
			e = Not(e)
		}
		return mk(e)
	}
	if srt == sFlt {
		switch op {
		case token.ADD:
			return mk("(fadd " + x.E + " " + y.E + ")")
		case token.SUB:
			return mk("(fsub " + x.E + " " + y.E + ")")
		case token.MUL:
			return mk("(fmul " + x.E + " " + y.E + ")")
		case token.QUO:
			return mk("(fdiv " + x.E + " " + y.E + ")")
		case token.LSS:
			return mk("(flt " + x.E + " " + y.E + ")")
		case token.LEQ:
			return mk("(fle " + x.E + " " + y.E + ")")
		case token.GTR:
			return mk("(flt " + y.E + " " + x.E + ")")
		case token.GEQ:
			return mk("(fle " + y.E + " " + x.E + ")")
		}
		c.unsupported("float op %s", op)
	}
	if b, ok := x.T.Underlying().(*types.Basic); ok && b.Info()&types.IsString != 0 {
		switch op {
		case token.ADD:
			r := mk("(strcat " + x.E + " " + y.E + ")")
			c.assume(st, "(and (>= "+r.E+" 0) (= (strlen "+r.E+") (+ (strlen "+x.E+") (strlen "+y.E+"))))")
			return r
		case token.LSS:
			return mk("(< " + x.E + " " + y.E + ")")
		case token.LEQ:
			return mk("(<= " + x.E + " " + y.E + ")")
		case token.GTR:
			return mk("(> " + x.E + " " + y.E + ")")
		case token.GEQ:
			return mk("(>= " + x.E + " " + y.E + ")")
		}
		c.unsupported("string op %s", op)
	}
	switch op {
	case token.ADD:
		return Val{T: resT, E: c.wrap(resT, "(+ "+x.E+" "+y.E+")")}
	case token.SUB:
		return Val{T: resT, E: c.wrap(resT, "(- "+x.E+" "+y.E+")")}
	case token.MUL:
		return Val{T: resT, E: c.wrap(resT, "(* "+x.E+" "+y.E+")")}
	case token.QUO, token.REM:
		o := c.obligation(st, "safe", "divzero", "(not (= "+y.E+" 0))", pos)
		o.Desc = "integer division by zero"
		c.assume(st, "(not (= "+y.E+" 0))")
		if op == token.QUO {
			return Val{T: resT, E: c.wrap(resT, "(godiv "+x.E+" "+y.E+")")}
		}
		return mk("(gorem " + x.E + " " + y.E + ")")
	case token.LSS:
		return mk("(< " + x.E + " " + y.E + ")")
	case token.LEQ:
		return mk("(<= " + x.E + " " + y.E + ")")
	case token.GTR:
		return mk("(> " + x.E + " " + y.E + ")")
	case token.GEQ:
		return mk("(>= " + x.E + " " + y.E + ")")
	case token.AND, token.OR, token.XOR, token.SHL, token.SHR, token.AND_NOT:
		if srt == sBool {
			switch op {
			case token.AND:
				return mk(And(x.E, y.E))
			case token.OR:
				return mk(Or(x.E, y.E))
			}
		}
		// bit operations: uninterpreted but functional
		f := q("bitop$" + op.String())
		c.sc.Decl("bitop:"+op.String(), "(declare-fun "+f+" (Int Int) Int)")
		r := mk(App(f, x.E, y.E))
		if inv := c.ty.Inv(resT, r.E); inv != "true" {
			c.assume(st, inv)
		}
		return r
	}
	c.unsupported("binop %s", op)
	return Val{}
}

func (c *FnCtx) convert(st *State, x Val, to types.Type, pos token.Pos) Val {
	from := x.T
	fs, ts := c.ty.SortOf(from), c.ty.SortOf(to)
	fb, _ := from.Underlying().(*types.Basic)
	tb, _ := to.Underlying().(*types.Basic)
	switch {
	case fs == sInt && ts == sInt:
		if fb != nil && tb != nil && fb.Info()&types.IsInteger != 0 && tb.Info()&types.IsInteger != 0 {
			return Val{T: to, E: c.wrap(to, x.E)}
		}
		if fb != nil && tb != nil && fb.Info()&types.IsString != 0 && tb.Info()&types.IsString != 0 {
			return Val{T: to, E: x.E}
		}
		if tb != nil && tb.Info()&types.IsString != 0 {
			// int -> string (rune): uninterpreted
			f := q("runestr")
			c.sc.Decl("runestr", "(declare-fun |runestr| (Int) Int)")
			r := c.sc.Define("cv", sInt, App(f, x.E))
			c.assume(st, "(>= "+r+" 0)")
			return Val{T: to, E: r}
		}
		v := x
		v.T = to
		return v
	case fs == sFlt && ts == sFlt:
		return Val{T: to, E: x.E}
	case fs == sInt && ts == sFlt:
		return Val{T: to, E: c.sc.Define("cv", sFlt, "(fin (to_real "+x.E+"))")}
	case fs == sFlt && ts == sInt:
		// truncation toward zero for finite in-range values; otherwise implementation defined
		f := q("f2i$undef")
		c.sc.Decl("f2i", "(declare-fun |f2i$undef| (Flt) Int)")
		tr := "(ite (>= (fv " + x.E + ") 0.0) (to_int (fv " + x.E + ")) (- (to_int (- (fv " + x.E + ")))))"
		lo, hi, _ := intRange(tb)
		e := "(ite (and ((_ is fin) " + x.E + ") (<= " + lo + " " + tr + ") (<= " + tr + " " + hi + ")) " + tr + " (" + f + " " + x.E + "))"
		r := c.sc.Define("cv", sInt, e)
		c.assume(st, c.ty.Inv(to, r))
		return Val{T: to, E: r}
	case fs == sSlice && ts == sInt:
		// []byte -> string
		f := q("bytes2str")
		c.sc.Decl("bytes2str", "(declare-fun |bytes2str| (Slice Int) Int)")
		r := c.sc.Define("cv", sInt, App(f, x.E, "0"))
		c.assume(st, "(>= "+r+" 0)")
		return Val{T: to, E: r}
	case fs == sInt && ts == sSlice:
		r := c.fresh("str2bytes", to, st)
		c.assume(st, "(= (s-len "+r.E+") (strlen "+x.E+"))")
		return r
	}
	if fs == ts {
		v := x
		v.T = to
		return v
	}
	c.unsupported("convert %s -> %s", from, to)
	return Val{}
}

// ---------- interfaces ----------

func (c *FnCtx) boxed(t types.Type, e string) string {
	switch s := c.ty.SortOf(t); s {
	case sInt:
		return e
	case sBool:
		return "(box-Bool " + e + ")"
	case sSlice:
		return "(box-Slice " + e + ")"
	case sFlt:
		return "(box-Flt " + e + ")"
	case sIface:
		return "(box-Iface " + e + ")"
	default:
		// struct value
		name := strings.Trim(s, "|")
		bf, uf := q("box-"+name), q("unbox-"+name)
		c.sc.Decl("box:"+name, fmt.Sprintf("(declare-fun %s (%s) Int)\n(declare-fun %s (Int) %s)\n(assert (forall ((s %s)) (! (= (%s (%s s)) s) :pattern ((%s s)))))", bf, s, uf, s, s, uf, bf, bf))
		return App(bf, e)
	}
}

func (c *FnCtx) unboxed(t types.Type, e string) string {
	switch s := c.ty.SortOf(t); s {
	case sInt:
		return e
	case sBool:
		return "(unbox-Bool " + e + ")"
	case sSlice:
		return "(unbox-Slice " + e + ")"
	case sFlt:
		return "(unbox-Flt " + e + ")"
	case sIface:
		return "(unbox-Iface " + e + ")"
	default:
		name := strings.Trim(s, "|")
		c.boxed(t, c.ty.Zero(t))
		return App(q("unbox-"+name), e)
	}
}

func (c *FnCtx) makeInterface(x Val, it types.Type) Val {
	if x.E == "" && x.Loc != nil {
		x.E = c.ptrTerm(x)
	}
	id := c.ty.TypeID(x.T)
	v := Val{T: it, E: c.sc.Define("mi", sIface, fmt.Sprintf("(mk-iface %d %s)", id, c.boxed(x.T, x.E)))}
	v.Clo = x.Clo
	v.Dyn = x.T
	v.FreshFrom = x.FreshFrom
	return v
}

func (c *FnCtx) typeAssert(fr *Frame, st *State, i *ssa.TypeAssert) {
	x := c.val(fr, i.X)
	at := i.AssertedType
	var ok string
	var v Val
	if _, isIface := at.Underlying().(*types.Interface); isIface {
		ok = c.implementsPred(x.E, at)
		v = Val{T: at, E: x.E}
	} else {
		id := c.ty.TypeID(at)
		ok = fmt.Sprintf("(= (i-tag %s) %d)", x.E, id)
		v = Val{T: at, E: c.sc.Define("ta", c.ty.SortOf(at), c.unboxed(at, "(i-val "+x.E+")")), Clo: x.Clo, FreshFrom: x.FreshFrom}
	}
	if i.CommaOk {
		okv := c.sc.Define("ok", sBool, ok)
		v.E = c.sc.Define("ta", c.ty.SortOf(at), Ite(okv, v.E, c.ty.Zero(at)))
		fr.vals[i] = Val{T: i.Type(), Tuple: []Val{v, {T: types.Typ[types.Bool], E: okv}}}
		if okv != "false" {
			c.assumeLoaded(st, at, v.E)
		}
		return
	}
	o := c.obligation(st, "safe", "typeassert", ok, i.Pos())
	o.Desc = "type assertion " + shortTypeName(at) + " may fail"
	c.assume(st, ok)
	c.assumeLoaded(st, at, v.E)
	fr.vals[i] = v
}

// implementsPred: dynamic type of x implements interface it (and x is non-nil).
func (c *FnCtx) implementsPred(x string, it types.Type) string {
	iface := it.Underlying().(*types.Interface)
	if iface.NumMethods() == 0 {
		return "(not (= (i-tag " + x + ") 0))"
	}
	name := q("impl$" + shortTypeName(it))
	c.sc.Decl("impl:"+name, "(declare-fun "+name+" (Int) Bool)\n(assert (not ("+name+" 0)))")
	// known concrete types decide the predicate
	for id, t := range c.ty.typeByID {
		key := fmt.Sprintf("implfact:%s:%d", name, id)
		if types.Implements(t, iface) {
			c.sc.Decl(key, fmt.Sprintf("(assert (%s %d))", name, id))
		} else {
			c.sc.Decl(key, fmt.Sprintf("(assert (not (%s %d)))", name, id))
		}
	}
	return "(" + name + " (i-tag " + x + "))"
}

// ---------- slices ----------

func (c *FnCtx) execSlice(fr *Frame, st *State, i *ssa.Slice) {
	x := c.val(fr, i.X)
	switch xt := i.X.Type().Underlying().(type) {
	case *types.Slice:
		lo, hi, mx := "0", "(s-len "+x.E+")", "(s-cap "+x.E+")"
		if i.Low != nil {
			lo = c.val(fr, i.Low).E
		}
		if i.High != nil {
			hi = c.val(fr, i.High).E
		}
		if i.Max != nil {
			mx = c.val(fr, i.Max).E
		}
		g := "(and (<= 0 " + lo + ") (<= " + lo + " " + hi + ") (<= " + hi + " " + mx + ") (<= " + mx + " (s-cap " + x.E + ")))"
		o := c.obligation(st, "safe", "slice", g, i.Pos())
		o.Desc = "slice bounds out of range"
		c.assume(st, g)
		// slicing a nil slice yields a nil slice
		e := fmt.Sprintf("(mk-slice (s-arr %[1]s) (+ (s-off %[1]s) %[2]s) (- %[3]s %[2]s) (- %[4]s %[2]s))", x.E, lo, hi, mx)
		rs := c.sc.Define("sl", sSlice, e)
		if mu, ok := c.guardOf["(s-arr "+x.E+")"]; ok {
			c.guardOf["(s-arr "+rs+")"] = mu
		}
		fr.vals[i] = Val{T: i.Type(), E: rs}
	case *types.Basic:
		lo, hi := "0", "(strlen "+x.E+")"
		if i.Low != nil {
			lo = c.val(fr, i.Low).E
		}
		if i.High != nil {
			hi = c.val(fr, i.High).E
		}
		g := "(and (<= 0 " + lo + ") (<= " + lo + " " + hi + ") (<= " + hi + " (strlen " + x.E + ")))"
		o := c.obligation(st, "safe", "slice", g, i.Pos())
		o.Desc = "string slice bounds out of range"
		c.assume(st, g)
		c.sc.Decl("substr", "(declare-fun |substr| (Int Int Int) Int)")
		r := c.sc.Define("ss", sInt, App(q("substr"), x.E, lo, hi))
		c.assume(st, "(and (>= "+r+" 0) (= (strlen "+r+") (- "+hi+" "+lo+")))")
		fr.vals[i] = Val{T: i.Type(), E: r}
	case *types.Pointer:
		at, ok := xt.Elem().Underlying().(*types.Array)
		if !ok || x.E == "" {
			c.unsupported("slice of %s", i.X.Type())
		}
		n := fmt.Sprint(at.Len())
		lo, hi, mx := "0", n, n
		if i.Low != nil {
			lo = c.val(fr, i.Low).E
		}
		if i.High != nil {
			hi = c.val(fr, i.High).E
		}
		if i.Max != nil {
			mx = c.val(fr, i.Max).E
		}
		g := "(and (<= 0 " + lo + ") (<= " + lo + " " + hi + ") (<= " + hi + " " + mx + ") (<= " + mx + " " + n + "))"
		o := c.obligation(st, "safe", "slice", g, i.Pos())
		o.Desc = "slice bounds out of range"
		c.assume(st, g)
		sv := c.sc.Define("sl", sSlice, fmt.Sprintf("(mk-slice %s %s (- %s %s) (- %s %s))", x.E, lo, hi, lo, mx, lo))
		if l, err1 := strconv.Atoi(lo); err1 == nil {
			if h, err2 := strconv.Atoi(hi); err2 == nil {
				c.sliceLen[sv] = strconv.Itoa(h - l)
			}
		}
		fr.vals[i] = Val{T: i.Type(), E: sv}
	default:
		_ = xt
		c.unsupported("slice of %s", i.X.Type())
	}
}

// appendSlice models append(s, t...) exactly: in place when capacity suffices, fresh copy otherwise.
func (c *FnCtx) appendSlice(st *State, s, t Val, pos token.Pos) Val {
	elem := s.T.Underlying().(*types.Slice).Elem()
	h := c.elemHeap(elem)
	es := c.ty.SortOf(elem)
	n := "(s-len " + t.E + ")"
	if tb, ok := t.T.Underlying().(*types.Basic); ok && tb.Info()&types.IsString != 0 {
		c.unsupported("append(bytes, string...)")
	}
	newLen := c.sc.Define("nl", sInt, "(+ (s-len "+s.E+") "+n+")")
	fits := c.sc.Define("fits", sBool, "(<= "+newLen+" (s-cap "+s.E+"))")
	H := c.heapGet(st, h)
	srcArr := "(select " + H + " (s-arr " + t.E + "))"
	// in-place variant: elements [len, len+n) of s's array are overwritten
	c.eng.onSliceWrite(c, st, s, fits, pos)
	dstArr := "(select " + H + " (s-arr " + s.E + "))"
	newArrIn := c.sc.Fresh("apIn", "(Array Int "+es+")")
	c.sc.Assume(fmt.Sprintf("(forall ((j Int)) (! (= (select %[1]s j) (ite (and (<= (+ (s-off %[2]s) (s-len %[2]s)) j) (< j (+ (s-off %[2]s) %[3]s))) (select %[4]s (+ (s-off %[5]s) (- j (+ (s-off %[2]s) (s-len %[2]s))))) (select %[6]s j))) :pattern ((select %[1]s j)) :pattern ((select %[6]s j))))", newArrIn, s.E, newLen, srcArr, t.E, dstArr))
	// fresh variant
	fresh := c.newRef(st, "aparr")
	newArrOut := c.sc.Fresh("apOut", "(Array Int "+es+")")
	c.sc.Assume(fmt.Sprintf("(forall ((j Int)) (! (= (select %[1]s j) (ite (and (<= 0 j) (< j (s-len %[2]s))) (select %[3]s (+ (s-off %[2]s) j)) (ite (and (<= (s-len %[2]s) j) (< j %[4]s)) (select %[5]s (+ (s-off %[6]s) (- j (s-len %[2]s)))) %[7]s))) :pattern ((select %[1]s j))))", newArrOut, s.E, dstArr, newLen, srcArr, t.E, c.ty.Zero(elem)))
	// the same copy fact triggered from the old elements (so a fact known about s[i] carries over to the result)
	c.sc.Assume(fmt.Sprintf("(forall ((p Int)) (! (=> (and (<= (s-off %[2]s) p) (< p (+ (s-off %[2]s) (s-len %[2]s)))) (= (select %[1]s (- p (s-off %[2]s))) (select %[3]s p))) :pattern ((select %[3]s p))))", newArrOut, s.E, dstArr))
	newCap := c.sc.Fresh("apcap", sInt)
	c.sc.Assume("(>= " + newCap + " " + newLen + ")")
	c.heapSet(st, h, Ite(fits, "(store "+H+" (s-arr "+s.E+") "+newArrIn+")", "(store "+H+" "+fresh+" "+newArrOut+")"))
	res := Ite(fits, "(mk-slice (s-arr "+s.E+") (s-off "+s.E+") "+newLen+" (s-cap "+s.E+"))", "(mk-slice "+fresh+" 0 "+newLen+" "+newCap+")")
	// append(nil, nothing) stays nil
	res = Ite("(and (= (s-arr "+s.E+") 0) (= "+n+" 0))", s.E, res)
	c.eng.onAlloc(c, st, fresh, nil)
	rv := c.sc.Define("ap", sSlice, res)
	if mu, ok := c.guardOf["(s-arr "+s.E+")"]; ok {
		c.guardOf["(s-arr "+rv+")"] = mu // appending in place keeps the shared array
	}
	if ls, ok1 := c.sliceLenBound(s.E); ok1 {
		if lt, ok2 := c.sliceLenBound(t.E); ok2 {
			_, exS := c.sliceLen[s.E]
			_, exT := c.sliceLen[t.E]
			if (exS || s.E == nilSlice) && (exT || t.E == nilSlice) {
				c.sliceLen[rv] = strconv.Itoa(ls + lt)
			} else {
				c.intUB["(s-len "+rv+")"] = ls + lt
			}
		}
	}
	return Val{T: s.T, E: rv}
}

func (c *FnCtx) copySlice(st *State, dst, src Val, pos token.Pos) Val {
	elem := dst.T.Underlying().(*types.Slice).Elem()
	h := c.elemHeap(elem)
	es := c.ty.SortOf(elem)
	if _, isStr := src.T.Underlying().(*types.Basic); isStr {
		c.unsupported("copy from string")
	}
	n := c.sc.Define("cn", sInt, "(ite (< (s-len "+dst.E+") (s-len "+src.E+")) (s-len "+dst.E+") (s-len "+src.E+"))")
	H := c.heapGet(st, h)
	c.eng.onSliceWrite(c, st, dst, "(> "+n+" 0)", pos)
	srcArr := "(select " + H + " (s-arr " + src.E + "))"
	dstArr := "(select " + H + " (s-arr " + dst.E + "))"
	na := c.sc.Fresh("cp", "(Array Int "+es+")")
	c.sc.Assume(fmt.Sprintf("(forall ((j Int)) (! (= (select %[1]s j) (ite (and (<= (s-off %[2]s) j) (< j (+ (s-off %[2]s) %[3]s))) (select %[4]s (+ (s-off %[5]s) (- j (s-off %[2]s)))) (select %[6]s j))) :pattern ((select %[1]s j))))", na, dst.E, n, srcArr, src.E, dstArr))
	c.heapSet(st, h, Ite("(> "+n+" 0)", "(store "+H+" (s-arr "+dst.E+") "+na+")", H))
	return Val{T: types.Typ[types.Int], E: n}
}

// ---------- maps ----------

func (c *FnCtx) mapStore(st *State, mt *types.Map, m, k, v string) {
	has, val, ln := c.mapHeaps(mt)
	H, V, L := c.heapGet(st, has), c.heapGet(st, val), c.heapGet(st, ln)
	had := "(select (select " + H + " " + m + ") " + k + ")"
	c.heapSet(st, ln, "(store "+L+" "+m+" (ite "+had+" (select "+L+" "+m+") (+ (select "+L+" "+m+") 1)))")
	c.heapSet(st, has, "(store "+H+" "+m+" (store (select "+H+" "+m+") "+k+" true))")
	c.heapSet(st, val, "(store "+V+" "+m+" (store (select "+V+" "+m+") "+k+" "+v+"))")
}

func (c *FnCtx) mapDelete(st *State, mt *types.Map, m, k string) {
	has, _, ln := c.mapHeaps(mt)
	H, L := c.heapGet(st, has), c.heapGet(st, ln)
	had := "(select (select " + H + " " + m + ") " + k + ")"
	c.heapSet(st, ln, "(store "+L+" "+m+" (ite "+had+" (- (select "+L+" "+m+") 1) (select "+L+" "+m+")))")
	c.heapSet(st, has, "(store "+H+" "+m+" (store (select "+H+" "+m+") "+k+" false))")
}

func (c *FnCtx) execLookup(fr *Frame, st *State, i *ssa.Lookup) {
	x := c.val(fr, i.X)
	k := c.val(fr, i.Index)
	mt, ok := i.X.Type().Underlying().(*types.Map)
	if !ok {
		c.unsupported("lookup on %s", i.X.Type())
	}
	c.eng.onMapRead(c, st, x.E, i.Pos())
	has, val, _ := c.mapHeaps(mt)
	H, V := c.heapGet(st, has), c.heapGet(st, val)
	// reading a nil map is legal and yields zero values
	hasK := c.sc.Define("has", sBool, "(and (not (= "+x.E+" 0)) (select (select "+H+" "+x.E+") "+k.E+"))")
	v := c.sc.Define("mv", c.ty.SortOf(mt.Elem()), Ite(hasK, "(select (select "+V+" "+x.E+") "+k.E+")", c.ty.Zero(mt.Elem())))
	c.assumeLoaded(st, mt.Elem(), v)
	if i.CommaOk {
		fr.vals[i] = Val{T: i.Type(), Tuple: []Val{{T: mt.Elem(), E: v}, {T: types.Typ[types.Bool], E: hasK}}}
	} else {
		fr.vals[i] = Val{T: mt.Elem(), E: v}
	}
}

// range over a map: a ghost, duplicate-free enumeration of the keys present when the loop starts.
type rangeState struct {
	mapT *types.Map
	m    string
	keys string // (Array Int K): enumeration
	idx  string // (Array K Int): position of each present key
	n    string // number of keys
	pos  string // local key holding the position
	has0 string
	val0 string
}

func (c *FnCtx) execRange(fr *Frame, st *State, i *ssa.Range) {
	x := c.val(fr, i.X)
	mt, ok := i.X.Type().Underlying().(*types.Map)
	if !ok {
		c.unsupported("range over %s", i.X.Type())
	}
	c.eng.onMapRead(c, st, x.E, i.Pos())
	has, val, ln := c.mapHeaps(mt)
	ks := c.ty.SortOf(mt.Key())
	H := c.sc.Define("rh", "(Array "+ks+" Bool)", "(select "+c.heapGet(st, has)+" "+x.E+")")
	V := c.sc.Define("rv", "(Array "+ks+" "+c.ty.SortOf(mt.Elem())+")", "(select "+c.heapGet(st, val)+" "+x.E+")")
	n := c.sc.Define("rn", sInt, Ite("(= "+x.E+" 0)", "0", "(select "+c.heapGet(st, ln)+" "+x.E+")"))
	keys := c.sc.Fresh("rkeys", "(Array Int "+ks+")")
	idxOf := c.sc.Fresh("ridx", "(Array "+ks+" Int)")
	// enumeration is a bijection between [0,n) and the key set
	c.assume(st, "(>= "+n+" 0)")
	c.assume(st, fmt.Sprintf("(forall ((j Int)) (! (=> (and (<= 0 j) (< j %[1]s)) (and (select %[2]s (select %[3]s j)) (= (select %[4]s (select %[3]s j)) j))) :pattern ((select %[3]s j))))", n, H, keys, idxOf))
	c.assume(st, fmt.Sprintf("(forall ((k %[5]s)) (! (=> (select %[2]s k) (and (<= 0 (select %[4]s k)) (< (select %[4]s k) %[1]s) (= (select %[3]s (select %[4]s k)) k))) :pattern ((select %[4]s k))))", n, H, keys, idxOf, ks))
	if x.E != "0" {
		c.assume(st, "(=> (= "+x.E+" 0) (= "+n+" 0))")
	}
	key := fmt.Sprintf("%d:range:%s", fr.id, i.Name())
	st.locals[key] = Val{T: types.Typ[types.Int], E: "0"}
	c.ranges[key] = &rangeState{mapT: mt, m: x.E, keys: keys, idx: idxOf, n: n, pos: key, has0: H, val0: V}
	fr.vals[i] = Val{T: i.Type(), E: key}
}

func (c *FnCtx) execNext(fr *Frame, st *State, i *ssa.Next) {
	it := c.val(fr, i.Iter)
	rs := c.ranges[it.E]
	if rs == nil {
		c.unsupported("next on unknown iterator")
	}
	pos := st.locals[rs.pos].E
	ok := c.sc.Define("rok", sBool, "(< "+pos+" "+rs.n+")")
	k := c.sc.Define("rk", c.ty.SortOf(rs.mapT.Key()), "(select "+rs.keys+" "+pos+")")
	v := c.sc.Define("rval", c.ty.SortOf(rs.mapT.Elem()), "(select "+rs.val0+" "+k+")")
	st.locals[rs.pos] = Val{T: types.Typ[types.Int], E: c.sc.Define("rpos", sInt, "(+ "+pos+" 1)")}
	c.assume(st, "(=> "+ok+" "+And(c.ty.Inv(rs.mapT.Key(), k), c.ty.Inv(rs.mapT.Elem(), v), c.refBound(rs.mapT.Elem(), v, st))+")")
	fr.vals[i] = Val{T: i.Type(), Tuple: []Val{{T: types.Typ[types.Bool], E: ok}, {T: rs.mapT.Key(), E: k}, {T: rs.mapT.Elem(), E: v}}}
}

// singleStoreCell: the address-taken local is written exactly once (its initialisation) and otherwise only read or
// captured by closures that do not write it; then the cell behaves like a constant whatever unknown code runs.
func singleStoreCell(a *ssa.Alloc) bool {
	stores := 0
	ok := true
	var scan func(fn *ssa.Function, v ssa.Value)
	scan = func(fn *ssa.Function, v ssa.Value) {
		for _, ref := range *v.Referrers() {
			switch r := ref.(type) {
			case *ssa.Store:
				if r.Addr == v {
					stores++
				} else {
					ok = false // the address itself is stored somewhere
				}
			case *ssa.UnOp:
				// load
			case *ssa.DebugRef:
			case *ssa.MakeClosure:
				cf := r.Fn.(*ssa.Function)
				for k, b := range r.Bindings {
					if b == v && k < len(cf.FreeVars) {
						scan(cf, cf.FreeVars[k])
					}
				}
			default:
				ok = false
			}
		}
	}
	if a.Referrers() == nil {
		return false
	}
	scan(a.Parent(), a)
	if !ok || stores != 1 {
		return false
	}
	// the one store must be the variable's initialisation: by the allocating function itself, in the block of the
	// allocation, before anything reads the cell or captures it (`x := e`); a `var x T` that a closure assigns later
	// is zero until then and is NOT a constant
	blk := a.Block()
	seen := false
	for _, ins := range blk.Instrs {
		if ins == ssa.Instruction(a) {
			seen = true
			continue
		}
		if !seen {
			continue
		}
		switch r := ins.(type) {
		case *ssa.Store:
			if r.Addr == ssa.Value(a) {
				return true
			}
		case *ssa.DebugRef:
		default:
			for _, op := range ins.Operands(nil) {
				if op != nil && *op == ssa.Value(a) {
					return false // used before it is initialised
				}
			}
		}
	}
	return false
}
