package main

// Assumed library contracts for google.golang.org/protobuf/proto over an abstract message value:
// ghost$msg[r] is the abstract content of the message object r (two live messages are proto.Equal iff they
// have the same dynamic type and the same abstract content).  Any direct store into a field of a message
// struct invalidates the abstraction (the whole array is havocked: nested messages share their parents' value).

import (
	"fmt"
	"go/token"
	"go/types"
	"strings"

	"golang.org/x/tools/go/ssa"
)

const msgComp = "ghost$msg"

func (c *FnCtx) msgHeap() string { return c.comp(msgComp, "(Array Int Int)") }

func isMessageStruct(t types.Type) bool {
	n, ok := t.(*types.Named)
	if !ok {
		return false
	}
	if _, ok := n.Underlying().(*types.Struct); !ok {
		return false
	}
	ms := types.NewMethodSet(types.NewPointer(n))
	for i := 0; i < ms.Len(); i++ {
		if ms.At(i).Obj().Name() == "ProtoReflect" {
			return true
		}
	}
	return false
}

func (c *FnCtx) msgVal(st *State, ref string) string {
	return "(select " + c.heapGet(st, c.msgHeap()) + " " + ref + ")"
}

// protoEqualTerm: proto.Equal(a, b) for interface values.
func (c *FnCtx) protoEqualTerm(st *State, a, b string) string {
	return fmt.Sprintf("(or (and (= (i-tag %[1]s) 0) (= (i-tag %[2]s) 0)) (and (not (= (i-tag %[1]s) 0)) (= (i-tag %[1]s) (i-tag %[2]s)) (or (= (i-val %[1]s) (i-val %[2]s)) (= %[3]s %[4]s))))", a, b, c.msgVal(st, "(i-val "+a+")"), c.msgVal(st, "(i-val "+b+")"))
}

func (c *FnCtx) cloneInto(st *State, t types.Type, src, dst string, depth int) {
	s := t.Underlying().(*types.Struct)
	for k := 0; k < s.NumFields(); k++ {
		f := s.Field(k)
		switch f.Name() {
		case "state", "sizeCache", "unknownFields":
			continue
		}
		ft := f.Type()
		if isStructVal(ft) {
			continue
		}
		h := c.fieldHeap(t, k)
		H := c.heapGet(st, h)
		sv := "(select " + H + " " + src + ")"
		var nv string
		switch u := ft.Underlying().(type) {
		case *types.Pointer:
			if isMessageStruct(u.Elem()) && depth < 3 {
				nr := c.newRef(st, "clone$"+f.Name())
				c.cloneInto(st, u.Elem(), sv, nr, depth+1)
				H = c.heapGet(st, h)
				mh := c.msgHeap()
				c.heapSet(st, mh, "(store "+c.heapGet(st, mh)+" "+nr+" "+c.msgVal(st, sv)+")")
				nv = Ite("(= "+sv+" 0)", "0", nr)
			} else {
				nr := c.newRef(st, "clone$"+f.Name())
				nv = Ite("(= "+sv+" 0)", "0", nr)
			}
		case *types.Interface:
			nr := c.newRef(st, "clone$"+f.Name())
			nv = Ite("(= (i-tag "+sv+") 0)", nilIface, "(mk-iface (i-tag "+sv+") "+nr+")")
		case *types.Slice:
			nr := c.newRef(st, "clone$"+f.Name())
			nv = Ite("(= (s-len "+sv+") 0)", nilSlice, "(mk-slice "+nr+" 0 (s-len "+sv+") (s-len "+sv+"))")
		case *types.Map:
			nr := c.newRef(st, "clone$"+f.Name())
			nv = Ite("(= "+sv+" 0)", "0", nr)
		default:
			nv = sv
		}
		c.heapSet(st, h, "(store "+c.heapGet(st, h)+" "+dst+" "+nv+")")
	}
}

// flatMergeable: the message consists of scalar fields and pointers to messages that are flatMergeable themselves
// (no repeated, map, oneof, bytes or optional-scalar fields), to a nesting depth of 2.
func flatMergeable(t types.Type, depth int) bool {
	st, ok := t.Underlying().(*types.Struct)
	if !ok || depth > 2 {
		return false
	}
	for k := 0; k < st.NumFields(); k++ {
		f := st.Field(k)
		switch f.Name() {
		case "state", "sizeCache", "unknownFields":
			continue
		}
		switch u := f.Type().Underlying().(type) {
		case *types.Basic:
		case *types.Pointer:
			if !isMessageStruct(u.Elem()) || !flatMergeable(u.Elem(), depth+1) {
				return false
			}
		default:
			return false
		}
	}
	return true
}

// mergeInto: proto.Merge(dst, src) on a flatMergeable message type, field by field, effective only where cond holds:
// a set (non-zero) scalar of src overwrites dst's; a set sub-message is merged into dst's, or cloned when dst has none.
func (c *FnCtx) mergeInto(st *State, t types.Type, src, dst, cond string, depth int) {
	s := t.Underlying().(*types.Struct)
	for k := 0; k < s.NumFields(); k++ {
		f := s.Field(k)
		switch f.Name() {
		case "state", "sizeCache", "unknownFields":
			continue
		}
		ft := f.Type()
		h := c.fieldHeap(t, k)
		sv := c.sc.Define("mrg$s", c.ty.SortOf(ft), "(select "+c.heapGet(st, h)+" "+src+")")
		dv := c.sc.Define("mrg$d", c.ty.SortOf(ft), "(select "+c.heapGet(st, h)+" "+dst+")")
		var nv string
		switch u := ft.Underlying().(type) {
		case *types.Pointer:
			nr := c.newRef(st, "merge$"+f.Name())
			c.cloneInto(st, u.Elem(), sv, nr, depth+1)
			mh := c.msgHeap()
			c.heapSet(st, mh, "(store "+c.heapGet(st, mh)+" "+nr+" "+c.msgVal(st, sv)+")")
			both := c.sc.Define("mrg$both", sBool, And(cond, "(not (= "+sv+" 0))", "(not (= "+dv+" 0))"))
			c.mergeInto(st, u.Elem(), sv, dv, both, depth+1)
			c.heapSet(st, mh, "(store "+c.heapGet(st, mh)+" "+dv+" "+Ite(both, "(|mergeval| "+c.msgVal(st, dv)+" "+c.msgVal(st, sv)+")", c.msgVal(st, dv))+")")
			nv = Ite(And(cond, "(not (= "+sv+" 0))", "(= "+dv+" 0)"), nr, dv)
		default:
			nv = Ite(And(cond, "(not (= "+sv+" "+c.ty.Zero(ft)+"))"), sv, dv)
		}
		c.heapSet(st, h, "(store "+c.heapGet(st, h)+" "+dst+" "+nv+")")
	}
}

func derefMsgType(t types.Type) types.Type {
	if t == nil {
		return nil
	}
	if p, ok := t.Underlying().(*types.Pointer); ok && isMessageStruct(p.Elem()) {
		return p.Elem()
	}
	return nil
}

func (e *Engine) havocMessageFields(c *FnCtx, st *State, why string) {
	e.havocMessageFieldsFrom(c, st, why, "")
}

// havocMessageFieldsFrom: a library call rewrote a message and its sub-messages.  When the message is a deep-fresh
// clone (everything reachable from it was allocated at or after mark), objects below the mark are untouched.
func (e *Engine) havocMessageFieldsFrom(c *FnCtx, st *State, why string, mark string) {
	cond := "true"
	if mark != "" {
		// the frame below the mark only holds if nothing older was grafted into the clone since it was made
		var cs []string
		for _, t := range c.grafts {
			cs = append(cs, "(< "+t+" "+mark+")")
		}
		cond = c.sc.Define("nograft", sBool, And(cs...))
	}
	for _, k := range e.compOrder {
		if k != msgComp && e.isMessageComp(k) {
			old := c.heapGet(st, k)
			nh := c.sc.Fresh(k+"$"+why, e.comps[k])
			if mark != "" && strings.HasPrefix(e.comps[k], "(Array Int ") {
				c.sc.Assume(Implies(cond, fmt.Sprintf("(forall ((r Int)) (! (=> (< r %s) (= (select %s r) (select %s r))) :pattern ((select %s r))))", mark, nh, old, nh)))
			}
			st.heap[k] = nh
		}
	}
}

func init() {
	const P = "google.golang.org/protobuf/proto."
	preludeTable[P+"Clone"] = func(c *FnCtx, fr *Frame, st *State, fn *ssa.Function, args []Val, pos token.Pos) *Val {
		m := args[0]
		nr := c.newRef(st, "clone")
		mh := c.msgHeap()
		c.heapSet(st, mh, "(store "+c.heapGet(st, mh)+" "+nr+" "+c.msgVal(st, "(i-val "+m.E+")")+")")
		if mt := derefMsgType(m.Dyn); mt != nil {
			c.cloneInto(st, mt, "(i-val "+m.E+")", nr, 0)
		}
		c.eng.onAlloc(c, st, nr, nil)
		r := Val{T: m.T, Dyn: m.Dyn, FreshFrom: nr, E: c.sc.Define("clone", sIface, Ite("(= (i-tag "+m.E+") 0)", nilIface, "(mk-iface (i-tag "+m.E+") "+nr+")"))}
		return &r
	}
	preludeTable[P+"Equal"] = func(c *FnCtx, fr *Frame, st *State, fn *ssa.Function, args []Val, pos token.Pos) *Val {
		return &Val{T: tBool, E: c.sc.Define("peq", sBool, c.protoEqualTerm(st, args[0].E, args[1].E))}
	}
	preludeTable[P+"Merge"] = func(c *FnCtx, fr *Frame, st *State, fn *ssa.Function, args []Val, pos token.Pos) *Val {
		dst, src := args[0], args[1]
		c.eng.onMessageWrite(c, st, dst, "proto.Merge", pos)
		c.sc.Decl("mergeval", "(declare-fun |mergeval| (Int Int) Int)")
		mh := c.msgHeap()
		nv := "(|mergeval| " + c.msgVal(st, "(i-val "+dst.E+")") + " " + c.msgVal(st, "(i-val "+src.E+")") + ")"
		if mt := derefMsgType(dst.Dyn); mt != nil && derefMsgType(src.Dyn) != nil && types.Identical(mt, derefMsgType(src.Dyn)) && flatMergeable(mt, 0) {
			// field-precise merge for messages made of scalars and (nested) such messages
			c.mergeInto(st, mt, "(i-val "+src.E+")", "(i-val "+dst.E+")", "true", 0)
			c.heapSet(st, mh, "(store "+c.heapGet(st, mh)+" (i-val "+dst.E+") "+nv+")")
			return nil
		}
		c.eng.havocMessageFieldsFrom(c, st, "merge", dst.FreshFrom)
		c.heapSet(st, mh, "(store "+c.heapGet(st, mh)+" (i-val "+dst.E+") "+nv+")")
		return nil
	}
	preludeModTable[P+"Merge"] = []string{"msgs", msgComp}
	preludeTable[P+"Reset"] = func(c *FnCtx, fr *Frame, st *State, fn *ssa.Function, args []Val, pos token.Pos) *Val {
		dst := args[0]
		c.eng.onMessageWrite(c, st, dst, "proto.Reset", pos)
		c.sc.Decl("emptyval", "(declare-fun |emptyval| (Int) Int)")
		mh := c.msgHeap()
		if mt := derefMsgType(dst.Dyn); mt != nil {
			// every field of the message itself becomes its zero value; nothing else is written
			c.storeStruct(st, mt, "(i-val "+dst.E+")", c.ty.Zero(mt))
		} else {
			c.eng.havocMessageFieldsFrom(c, st, "reset", dst.FreshFrom)
		}
		c.heapSet(st, mh, "(store "+c.heapGet(st, mh)+" (i-val "+dst.E+") (|emptyval| (i-tag "+dst.E+")))")
		return nil
	}
	preludeModTable[P+"Reset"] = []string{"msgs", msgComp}
	// proto.Unmarshal(b, m): m's fields are overwritten with unknown contents; the error is unconstrained
	preludeTable[P+"Unmarshal"] = func(c *FnCtx, fr *Frame, st *State, fn *ssa.Function, args []Val, pos token.Pos) *Val {
		c.eng.onMessageWrite(c, st, args[1], "proto.Unmarshal", pos)
		c.eng.havocMessageFieldsFrom(c, st, "unmarshal", args[1].FreshFrom)
		mh := c.msgHeap()
		c.heapSet(st, mh, "(store "+c.heapGet(st, mh)+" (i-val "+args[1].E+") "+c.sc.Fresh("unmarshalled", sInt)+")")
		r := c.fresh("unmarshalErr", fn.Signature.Results().At(0).Type(), st)
		return &r
	}
	preludeModTable[P+"Unmarshal"] = []string{"msgs", msgComp}
	preludeModTable["sort.Slice"] = []string{"all"}
	preludeModTable["sort.SliceStable"] = []string{"all"}
}

func (e *Engine) onMessageWrite(c *FnCtx, st *State, m Val, what string, pos token.Pos) {}

// fmutils: Filter/Prune write only the message they are given (assumed library contract).
func init() {
	const F = "github.com/mennanov/fmutils."
	filterLike := func(what string, msgArg int) preludeFn {
		return func(c *FnCtx, fr *Frame, st *State, fn *ssa.Function, args []Val, pos token.Pos) *Val {
			m := args[msgArg]
			if msgArg == 0 && c.ty.SortOf(args[1].T) == sSlice {
				// documented precondition of fmutils.Filter/Prune: the paths are valid for the message type (a path that
				// continues through a scalar, repeated-scalar or map field makes the reflection walk panic)
				c.sc.Decl("pathsvalid", "(declare-fun |pathsvalid| (Int Int) Bool)")
				goal := "(or (= (s-len " + args[1].E + ") 0) (|pathsvalid| (s-arr " + args[1].E + ") (i-tag " + m.E + ")))"
				if mt := derefMsgType(m.Dyn); mt != nil && !canFilterPanic(mt, map[string]bool{}, 0) {
					goal = "true"
				}
				o := c.obligation(st, "lib", "fmutils.paths-valid", goal, pos)
				o.Desc = what + " is called with a field mask that nothing has validated for this message type (it panics on paths through scalar/map/repeated-scalar fields)"
			}
			c.eng.onMessageWrite(c, st, m, what, pos)
			fname := "filterval"
			if strings.Contains(what, "Prune") {
				fname = "pruneval" // Prune removes what Filter keeps: a different function of (content, mask)
			}
			c.sc.Decl(fname, "(declare-fun |"+fname+"| (Int Int) Int)")
			mh := c.msgHeap()
			c.eng.havocMessageFieldsFrom(c, st, "filter", m.FreshFrom)
			// the abstract content becomes a function of the old content and the mask argument
			other := args[1-msgArg]
			key := "0"
			switch c.ty.SortOf(other.T) {
			case sSlice:
				key = "(s-arr " + other.E + ")"
			case sInt:
				key = other.E
			}
			c.heapSet(st, mh, "(store "+c.heapGet(st, mh)+" (i-val "+m.E+") (|"+fname+"| "+c.msgVal(st, "(i-val "+m.E+")")+" "+key+"))")
			return nil
		}
	}
	preludeTable[F+"Filter"] = filterLike("fmutils.Filter", 0)
	preludeTable[F+"Prune"] = filterLike("fmutils.Prune", 0)
	preludeTable["("+F+"NestedMask).Filter"] = filterLike("NestedMask.Filter", 1)
	preludeTable["("+F+"NestedMask).Prune"] = filterLike("NestedMask.Prune", 1)
	for _, n := range []string{F + "Filter", F + "Prune", "(" + F + "NestedMask).Filter", "(" + F + "NestedMask).Prune"} {
		preludeModTable[n] = []string{"msgs", msgComp}
	}
	pureLibPrefixes = append(pureLibPrefixes, F+"NestedMaskFromPaths")
	// fieldmaskpb.Union / Intersect: a fresh mask related to its operands by an uninterpreted predicate
	for _, op := range []string{"Union", "Intersect"} {
		op := op
		preludeTable["google.golang.org/protobuf/types/known/fieldmaskpb."+op] = func(c *FnCtx, fr *Frame, st *State, fn *ssa.Function, args []Val, pos token.Pos) *Val {
			rt := fn.Signature.Results().At(0).Type()
			ref := c.newRef(st, "mask"+op)
			c.nonNil[ref] = true
			pred := q("is" + strings.ToLower(op))
			c.sc.Decl("is"+strings.ToLower(op), "(declare-fun "+pred+" (Int Int Int) Bool)")
			c.assume(st, "("+pred+" "+ref+" "+args[0].E+" "+args[1].E+")")
			mt := rt.Underlying().(*types.Pointer).Elem()
			pi := fieldIndex(mt, "Paths")
			ps := c.fresh(op+"paths", mt.Underlying().(*types.Struct).Field(pi).Type(), st)
			h := c.fieldHeap(mt, pi)
			c.heapSet(st, h, "(store "+c.heapGet(st, h)+" "+ref+" "+ps.E+")")
			mh := c.msgHeap()
			c.heapSet(st, mh, "(store "+c.heapGet(st, mh)+" "+ref+" "+c.sc.Fresh("maskval", sInt)+")")
			return &Val{T: rt, E: ref, FreshFrom: ref}
		}
	}
	// (*fieldmaskpb.FieldMask).IsValid(m): validity of the mask's paths for m's type
	preludeTable["(*google.golang.org/protobuf/types/known/fieldmaskpb.FieldMask).IsValid"] = func(c *FnCtx, fr *Frame, st *State, fn *ssa.Function, args []Val, pos token.Pos) *Val {
		mask, m := args[0], args[1]
		mt := mask.T.Underlying().(*types.Pointer).Elem()
		pi := fieldIndex(mt, "Paths")
		paths := "(select " + c.heapGet(st, c.fieldHeap(mt, pi)) + " " + mask.E + ")"
		c.sc.Decl("pathsvalid", "(declare-fun |pathsvalid| (Int Int) Bool)")
		// a nil mask is valid; an empty one too
		e := "(or (= " + mask.E + " 0) (= (s-len " + paths + ") 0) (|pathsvalid| (s-arr " + paths + ") (i-tag " + m.E + ")))"
		return &Val{T: tBool, E: c.sc.Define("isvalid", sBool, e)}
	}
}

// canFilterPanic: fmutils.Filter/Prune panic only when a path continues through a repeated scalar or a map field.
// A message type that (transitively) has no such field is safe for every mask.
func canFilterPanic(t types.Type, seen map[string]bool, depth int) bool {
	k := typeKey(t)
	if seen[k] {
		return false
	}
	seen[k] = true
	if depth > 6 {
		return true
	}
	st, ok := t.Underlying().(*types.Struct)
	if !ok {
		return true
	}
	for i := 0; i < st.NumFields(); i++ {
		f := st.Field(i)
		switch f.Name() {
		case "state", "sizeCache", "unknownFields":
			continue
		}
		switch u := f.Type().Underlying().(type) {
		case *types.Map:
			return true
		case *types.Slice:
			if b, isB := u.Elem().Underlying().(*types.Basic); isB && b.Kind() == types.Uint8 {
				continue // bytes
			}
			if mt := derefMsgType(u.Elem()); mt != nil {
				if canFilterPanic(mt, seen, depth+1) {
					return true
				}
				continue
			}
			return true // repeated scalar
		case *types.Pointer:
			if mt := derefMsgType(f.Type()); mt != nil && canFilterPanic(mt, seen, depth+1) {
				return true
			}
		case *types.Interface:
			return true // oneof: wrapper types not enumerated here
		}
	}
	return false
}
