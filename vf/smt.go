package main

// SMT script builder and solver portfolio.
//
// A Script is an append-only list of declarations (order-insensitive: sorts, uninterpreted functions,
// havocked constants) and an ordered body (define-fun for every intermediate value, assert for every
// assumption).  An obligation remembers the body prefix that was in force when it was generated, so an
// assumption made later on a path can never help to discharge an earlier obligation.

import (
	"bytes"
	"context"
	"fmt"
	"os"
	"os/exec"
	"path/filepath"
	"regexp"
	"strings"
	"sync"
	"time"
)

type Script struct {
	defTerm  map[string]string // defined name -> its term
	decls    []string
	declSet  map[string]bool
	body     []string
	nameSeq  int
	defCache map[string]string
	pure     bool     // pure-term mode: no definitions, no assumptions; used to turn a closure body into one term
	pureAsm  []string // assumptions met in pure mode (type invariants of loaded values etc.); dropped
}

func NewScript() *Script {
	return &Script{declSet: map[string]bool{}, defCache: map[string]string{}}
}

func (s *Script) Decl(key, text string) {
	if s.declSet[key] {
		return
	}
	s.declSet[key] = true
	s.decls = append(s.decls, text)
}

func (s *Script) HasDecl(key string) bool { return s.declSet[key] }

func q(name string) string {
	if strings.HasPrefix(name, "|") {
		return name
	}
	return "|" + name + "|"
}

// Fresh declares a new unconstrained constant.
func (s *Script) Fresh(hint string, sort string) string {
	if s.pure {
		panic(unsupported("fresh value inside a closure that must be turned into a term (" + hint + ")"))
	}
	s.nameSeq++
	n := q(fmt.Sprintf("%s!%d", sanitize(hint), s.nameSeq))
	s.decls = append(s.decls, fmt.Sprintf("(declare-const %s %s)", n, sort))
	return n
}

// Define introduces a named abbreviation for a term (keeps queries linear in program size).
func (s *Script) Define(hint string, sort string, term string) string {
	if isAtom(term) || s.pure {
		return term
	}
	key := sort + "\x00" + term
	if n, ok := s.defCache[key]; ok {
		return n
	}
	s.nameSeq++
	n := q(fmt.Sprintf("%s!%d", sanitize(hint), s.nameSeq))
	s.body = append(s.body, fmt.Sprintf("(define-fun %s () %s %s)", n, sort, term))
	// the cache is only valid while the prefix is kept; obligations use prefixes >= this point
	s.defCache[key] = n
	if s.defTerm == nil {
		s.defTerm = map[string]string{}
	}
	s.defTerm[n] = term
	return n
}

// Expand returns the term a defined name stands for (one level), or the name itself.
func (s *Script) Expand(n string) string {
	if t, ok := s.defTerm[n]; ok {
		return t
	}
	return n
}

func (s *Script) Assume(term string) {
	if term == "true" {
		return
	}
	if s.pure {
		s.pureAsm = append(s.pureAsm, term)
		return
	}
	s.body = append(s.body, "(assert "+term+")")
}

// AssumeAxiom records a definitional axiom of a spec function.  It is only included in queries in which its
// primary symbol occurs (irrelevant quantified axioms make the solvers diverge).
func (s *Script) AssumeAxiom(term string) {
	s.body = append(s.body, axiomPrefix+term+")")
}

const axiomPrefix = "(assert (! "

func (s *Script) Mark() int { return len(s.body) }

func isAtom(t string) bool {
	if t == "" {
		return true
	}
	if t[0] == '(' {
		return false
	}
	return true
}

func sanitize(s string) string {
	var b strings.Builder
	for _, r := range s {
		switch {
		case r >= 'a' && r <= 'z', r >= 'A' && r <= 'Z', r >= '0' && r <= '9', r == '_', r == '.', r == '$', r == '#', r == '-':
			b.WriteRune(r)
		default:
			b.WriteByte('_')
		}
	}
	return b.String()
}

// ---- term helpers ----

func And(ts ...string) string {
	var out []string
	for _, t := range ts {
		if t == "true" || t == "" {
			continue
		}
		if t == "false" {
			return "false"
		}
		out = append(out, t)
	}
	switch len(out) {
	case 0:
		return "true"
	case 1:
		return out[0]
	}
	return "(and " + strings.Join(out, " ") + ")"
}

func Or(ts ...string) string {
	var out []string
	for _, t := range ts {
		if t == "false" || t == "" {
			continue
		}
		if t == "true" {
			return "true"
		}
		out = append(out, t)
	}
	switch len(out) {
	case 0:
		return "false"
	case 1:
		return out[0]
	}
	return "(or " + strings.Join(out, " ") + ")"
}

func Not(t string) string {
	switch t {
	case "true":
		return "false"
	case "false":
		return "true"
	}
	if strings.HasPrefix(t, "(not ") && balanced(t[5:len(t)-1]) {
		return t[5 : len(t)-1]
	}
	return "(not " + t + ")"
}

func balanced(s string) bool {
	d := 0
	inBar := false
	for i, c := range s {
		if c == '|' {
			inBar = !inBar
		}
		if inBar {
			continue
		}
		if c == '(' {
			d++
		} else if c == ')' {
			d--
			if d < 0 {
				return false
			}
			if d == 0 && i != len(s)-1 {
				return false
			}
		} else if d == 0 && (c == ' ') {
			return false
		}
	}
	return d == 0
}

func Implies(a, b string) string {
	if a == "true" {
		return b
	}
	if a == "false" || b == "true" {
		return "true"
	}
	return "(=> " + a + " " + b + ")"
}

func Ite(c, a, b string) string {
	if c == "true" {
		return a
	}
	if c == "false" {
		return b
	}
	if a == b {
		return a
	}
	return "(ite " + c + " " + a + " " + b + ")"
}

func Eq(a, b string) string {
	if a == b {
		return "true"
	}
	return "(= " + a + " " + b + ")"
}

func App(f string, args ...string) string {
	if len(args) == 0 {
		return f
	}
	return "(" + f + " " + strings.Join(args, " ") + ")"
}

func IntLit(v int64) string {
	if v < 0 {
		if v == -9223372036854775808 {
			return "(- 9223372036854775808)"
		}
		return fmt.Sprintf("(- %d)", -v)
	}
	return fmt.Sprintf("%d", v)
}

// ---- obligations and solving ----

type Obligation struct {
	Name       string // stable name: <pkg>.<Func>#<kind>.<clause>
	Func       string
	Props      []string
	Kind       string   // post, pre, inv, safe, lemma, vacuity ...
	Prefix     int      // body prefix length
	Goal       string   // must be valid under the prefix
	Expect     string   // "unsat" (normal) or "sat" (vacuity probes)
	Pos        string   // source position (informational only)
	Bounded    string   // non-empty for bounded stand-ins
	GetVals    []string // terms to evaluate in a counter-model
	Replay     *ReplaySpec
	script     *Script
	extra      []string // extra assertions local to this obligation
	Desc       string
	NoRetry    bool        // a recorded known finding: no extended-budget retry
	Optional   bool        // a satisfiability probe whose refutation is not an alarm by itself (dead path)
	PairPre    *Obligation // for an after-call probe: the probe taken just before the callee's postconditions were assumed
	OwnerProps []string    // for call-site preconditions: the properties the callee's contract serves
}

type Result struct {
	Ob      *Obligation
	Status  string // unsat, sat, unknown, timeout, error
	Errors  []string
	Solver  string
	Seconds float64
	Output  string
	Model   map[string]string
	Tried   []string
}

func (o *Obligation) Query(getModel bool) string {
	var d, b bytes.Buffer
	for _, l := range o.script.decls {
		d.WriteString(l)
		d.WriteByte('\n')
	}
	var axioms []string
	for _, l := range o.script.body[:o.Prefix] {
		if strings.HasPrefix(l, axiomPrefix) {
			axioms = append(axioms, "(assert "+strings.TrimSuffix(strings.TrimPrefix(l, axiomPrefix), ")")+")")
			continue
		}
		b.WriteString(l)
		b.WriteByte('\n')
	}
	for _, l := range o.extra {
		b.WriteString(l)
		b.WriteByte('\n')
	}
	if o.Expect == "sat" {
		b.WriteString("(assert " + o.Goal + ")\n")
	} else {
		b.WriteString("(assert (not " + o.Goal + "))\n")
	}
	b.WriteString("(check-sat)\n")
	if getModel && len(o.GetVals) > 0 {
		b.WriteString("(get-value (" + strings.Join(o.GetVals, " ") + "))\n")
	}
	body := b.String()
	var ab strings.Builder
	if len(axioms) > 0 {
		// fixpoint: an axiom is relevant if its primary spec symbol occurs in the query or in a relevant axiom
		included := make([]bool, len(axioms))
		text := body
		for changed := true; changed; {
			changed = false
			for i, a := range axioms {
				if included[i] {
					continue
				}
				m := specSymRe.FindString(a)
				if m == "" && strings.Contains(a, ":named |axiom$") {
					m = globalSymRe.FindString(a) // foreign axiom about a package-level variable
				}
				if m == "" || strings.Contains(text, m) {
					included[i] = true
					text += a
					changed = true
				}
			}
		}
		for i, a := range axioms {
			if included[i] {
				ab.WriteString(a)
				ab.WriteByte('\n')
			}
		}
	}
	all := d.String() + ab.String() + body
	return "(set-option :produce-models true)\n(set-logic ALL)\n" + preludeText(all) + all
}

type solverSpec struct {
	name string
	argv func(file string, timeoutS int) []string
}

var solvers = []solverSpec{
	{"z3-new", func(f string, t int) []string { return []string{"z3-new", fmt.Sprintf("-T:%d", t), f} }},
	{"cvc5", func(f string, t int) []string {
		return []string{"cvc5", "--incremental", fmt.Sprintf("--tlimit=%d", t*1000), f}
	}},
	{"z3", func(f string, t int) []string { return []string{"z3", fmt.Sprintf("-T:%d", t), f} }},
}

var workDir string

func runSolver(sp solverSpec, query string, timeoutS int, tag string) (status, out string, secs float64) {
	return runSolverCtx(context.Background(), sp, query, timeoutS, tag)
}

func runSolverCtx(parent context.Context, sp solverSpec, query string, timeoutS int, tag string) (status, out string, secs float64) {
	f := filepath.Join(workDir, sanitize(tag)+"."+sp.name+".smt2")
	if err := os.WriteFile(f, []byte(query), 0o644); err != nil {
		return "error", err.Error(), 0
	}
	ctx, cancel := context.WithTimeout(parent, time.Duration(timeoutS+5)*time.Second)
	defer cancel()
	argv := sp.argv(f, timeoutS)
	cmd := exec.CommandContext(ctx, argv[0], argv[1:]...)
	var buf bytes.Buffer
	cmd.Stdout = &buf
	cmd.Stderr = &buf
	t0 := time.Now()
	_ = cmd.Run()
	secs = time.Since(t0).Seconds()
	out = buf.String()
	if strings.Contains(out, "WARNING") {
		// solver warnings (e.g. a pattern that cannot be used after macro expansion) are not answers
		var kept []string
		for _, l := range strings.Split(out, "\n") {
			if !strings.HasPrefix(strings.TrimSpace(l), "WARNING") {
				kept = append(kept, l)
			}
		}
		out = strings.Join(kept, "\n")
	}
	first := strings.TrimSpace(strings.SplitN(out, "\n", 2)[0])
	switch first {
	case "unsat", "sat", "unknown":
		status = first
	case "timeout":
		status = "timeout"
	default:
		if ctx.Err() != nil || strings.Contains(out, "timeout") || strings.Contains(out, "interrupted") {
			status = "timeout"
		} else {
			status = "error"
		}
	}
	if status == "unsat" || keepQueries {
		// keep failing queries for inspection; remove discharged ones unless asked
	}
	if status == "unsat" && !keepQueries {
		os.Remove(f)
	}
	return
}

var keepQueries bool

// noRetry disables the extended-budget retry of undecided obligations (VF_NORETRY=1; used when hunting mutants quickly).
var noRetry = os.Getenv("VF_NORETRY") != ""

// Solve runs the portfolio sequentially: first solver that answers decisively wins.
func Solve(o *Obligation, timeoutS int, confirm bool) *Result {
	r := &Result{Ob: o}
	want := o.Expect
	if want == "" {
		want = "unsat"
	}
	query := o.Query(true)
	if want == "sat" && timeoutS > 2 {
		timeoutS = 2 // satisfiability probes: cheap attempt only (answers come in well under a second or not at all); "undecided" is not an alarm
	}
	record := func(name, st, out string, secs float64) bool {
		// returns true when the answer is decisive
		r.Tried = append(r.Tried, fmt.Sprintf("%s:%s:%.2fs", name, st, secs))
		if st == "unsat" || st == "sat" {
			if r.Status == "unsat" || r.Status == "sat" {
				return true // already decided by a faster run
			}
			r.Status, r.Solver, r.Output = st, strings.TrimPrefix(name[strings.LastIndex(name, "/")+1:], ""), out
			if st == "sat" || st != want {
				r.Model = parseModel(out)
			}
			return true
		}
		if st == "error" {
			r.Errors = append(r.Errors, name+": "+strings.TrimSpace(firstLines(out, 3)))
			if r.Output == "" {
				r.Output = out
			}
		}
		if st == "unknown" && r.Model == nil {
			// candidate model (may be spurious); kept for replay attempts
			r.Model = parseModel(out)
			r.Output = out
		}
		if r.Status != "unsat" && r.Status != "sat" {
			r.Status = st
			r.Solver = name
		}
		return false
	}
	sequential := want == "sat" || noRetry || o.NoRetry
	if sequential {
		// satisfiability probes, known findings and quick mutant hunts: the plain portfolio, one solver after the other
		for i, sp := range solvers {
			if want == "sat" && sp.name == "cvc5" {
				continue // probes: cvc5 has never decided one (measured over all checks); z3-new or z3 4.8 answer within a second or not at all
			}
			t := timeoutS
			if i > 0 {
				t = timeoutS / 2
				if t < 2 {
					t = 2
				}
			}
			st, out, secs := runSolver(sp, query, t, o.Name)
			r.Seconds += secs
			if record(sp.name, st, out, secs) {
				break
			}
		}
	} else {
		// Stage 1: the default solver with a short budget decides almost everything.
		t1 := timeoutS
		if t1 > 4 {
			t1 = 4
		}
		st, out, secs := runSolver(solvers[0], query, t1, o.Name)
		r.Seconds += secs
		if !record(solvers[0].name, st, out, secs) {
			// Stage 2: undecided.  Solver run time on quantified goals varies wildly with declaration order and seed (the
			// same goal takes 0.4 s with one seed and a minute with another), and an obligation near the budget must not turn
			// into an alarm on code where it holds: race five differently seeded runs and the two other solvers side by
			// side with an extended budget; the first decisive answer wins and stops the rest.
			ext := 6 * timeoutS
			if ext < 30 {
				ext = 30
			}
			if ext > 120 {
				ext = 120
			}
			type rr struct {
				st, out, tag string
				secs         float64
			}
			var racers []solverSpec
			var tags []string
			var budgets []int
			for k := 1; k <= 5; k++ {
				k := k
				racers = append(racers, solverSpec{"z3-new", func(f string, t int) []string {
					return []string{"z3-new", fmt.Sprintf("smt.random_seed=%d", k*17), fmt.Sprintf("sat.random_seed=%d", k*17), fmt.Sprintf("-T:%d", t), f}
				}})
				tags = append(tags, fmt.Sprintf("seed%d/z3-new", k))
				budgets = append(budgets, ext)
			}
			for _, sp := range solvers[1:] {
				racers = append(racers, sp)
				tags = append(tags, "race/"+sp.name)
				budgets = append(budgets, ext/2)
			}
			ch := make(chan rr, len(racers))
			rctx, rcancel := context.WithCancel(context.Background())
			for k := range racers {
				k := k
				go func() {
					st, out, secs := runSolverCtx(rctx, racers[k], query, budgets[k], fmt.Sprintf("%s.race%d", o.Name, k))
					ch <- rr{st, out, tags[k], secs}
				}()
			}
			longest := 0.0
			for range racers {
				x := <-ch
				if x.secs > longest {
					longest = x.secs
				}
				decided := r.Status == "unsat" || r.Status == "sat"
				if decided && x.st != "unsat" && x.st != "sat" {
					continue // a run that was stopped because another one had decided
				}
				if record(x.tag, x.st, x.out, x.secs) {
					rcancel()
				}
			}
			rcancel()
			r.Seconds += longest
		}
	}
	if want == "unsat" && r.Status != "unsat" && (r.Status != "sat" || len(r.Model) == 0) && len(o.GetVals) > 0 {
		// no counter-model (quantifiers): look for a *candidate* input in the relaxation without quantified
		// hypotheses.  It proves nothing; the replay on the real code decides whether it is a failing input.
		var qf []string
		for _, l := range strings.Split(query, "\n") {
			if strings.HasPrefix(l, "(assert") && (strings.Contains(l, "(forall ") || strings.Contains(l, "(exists ")) && !strings.HasPrefix(l, "(assert (not ") {
				continue
			}
			qf = append(qf, l)
		}
		st, out, secs := runSolver(solvers[0], strings.Join(qf, "\n"), 5, o.Name+".candidate")
		r.Seconds += secs
		r.Tried = append(r.Tried, fmt.Sprintf("candidate/%s:%s:%.2fs", solvers[0].name, st, secs))
		if st == "sat" {
			r.Model = parseModel(out)
			r.Output += "\n; candidate model from the quantifier-free relaxation:\n" + out
		}
	}
	if confirm && r.Status == "unsat" && want == "unsat" {
		// a second, independent solver must agree
		for _, sp := range solvers {
			if sp.name == r.Solver {
				continue
			}
			st, _, secs := runSolver(sp, query, timeoutS, o.Name+".confirm")
			r.Seconds += secs
			r.Tried = append(r.Tried, fmt.Sprintf("confirm/%s:%s:%.2fs", sp.name, st, secs))
			if st == "unsat" {
				r.Solver += "+" + sp.name
				break
			}
			if st == "sat" {
				r.Status = "error"
				r.Output = "solver disagreement: " + sp.name + " says sat"
				break
			}
		}
	}
	return r
}

var globalSymRe = regexp.MustCompile(`\|G\$[^|]*\|`)

var specSymRe = regexp.MustCompile(`\|spec\$[^|]*\|`)

var modelRe = regexp.MustCompile(`\((\|[^|]*\||[^\s()]+|\([^()]*(?:\([^()]*\)[^()]*)*\))\s+((?:\(-\s*[0-9./ ]+\))|[^\s()]+|\([^()]*(?:\([^()]*(?:\([^()]*\)[^()]*)*\)[^()]*)*\))\)`)

func parseModel(out string) map[string]string {
	idx := strings.Index(out, "\n")
	if idx < 0 {
		return nil
	}
	rest := strings.TrimSpace(out[idx+1:])
	if !strings.HasPrefix(rest, "(") {
		return nil
	}
	m := map[string]string{}
	t := parseSx(rest)
	if t == nil {
		return nil
	}
	for _, kv := range t.kids {
		if kv == nil || len(kv.kids) != 2 {
			continue
		}
		m[strings.Trim(kv.kids[0].String(), "|")] = normVal(kv.kids[1].String())
	}
	return m
}

func normVal(v string) string {
	v = strings.TrimSpace(v)
	if strings.HasPrefix(v, "(-") {
		inner := strings.TrimSpace(strings.TrimSuffix(strings.TrimPrefix(v, "(-"), ")"))
		return "-" + inner
	}
	return v
}

func SolveAll(obs []*Obligation, timeoutS int, confirm bool, workers int) []*Result {
	res := make([]*Result, len(obs))
	var wg sync.WaitGroup
	sem := make(chan struct{}, workers)
	for i, o := range obs {
		wg.Add(1)
		sem <- struct{}{}
		go func(i int, o *Obligation) {
			defer wg.Done()
			defer func() { <-sem }()
			res[i] = Solve(o, timeoutS, confirm)
		}(i, o)
	}
	wg.Wait()
	return res
}

func firstLines(s string, n int) string {
	ls := strings.SplitN(s, "\n", n+1)
	if len(ls) > n {
		ls = ls[:n]
	}
	return strings.Join(ls, " | ")
}
