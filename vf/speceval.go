package main

// Evaluation of spec expressions to SMT terms in a program state.

import (
	"go/token"
	"fmt"
	"go/types"
	"regexp"
	"strconv"
	"strings"

	"golang.org/x/tools/go/ssa"
)

type Env struct {
	upFrames bool // unknown names are looked up in the frames of inlined callers as well
	c        *FnCtx
	fr       *Frame
	st       *State // current state
	old      *State // state for old(...)
	names    map[string]Val
	loop     *loopInfo
	override map[ssa.Value]Val
	bound    map[string]Val // quantified variables
	specPkg  string
	freeBind []Val
	depth    int
	anyDef   bool // names may resolve to values defined inside the loop body (step contracts at sends)
}

func (c *FnCtx) newEnv(fr *Frame, st, old *State) *Env {
	e := &Env{c: c, fr: fr, st: st, old: old, names: map[string]Val{}, bound: map[string]Val{}}
	if fr != nil {
		for k, v := range fr.names {
			e.names[k] = v
		}
		if sp := c.specFor(fr); sp != nil {
			e.specPkg = sp.Pkg
		} else if fr.fn.Pkg != nil {
			e.specPkg = fr.fn.Pkg.Pkg.Path()
		}
	}
	return e
}

func (c *FnCtx) evalBool(env *Env, e Expr) string {
	v := c.eval(env, e)
	if v.T != nil && c.ty.SortOf(v.T) != sBool {
		panic(specError(fmt.Sprintf("boolean expected, got %s", v.T)))
	}
	return v.E
}

type specError string

func (s specError) Error() string { return "spec error: " + string(s) }

var (
	tInt    = types.Typ[types.Int]
	tInt64  = types.Typ[types.Int64]
	tBool   = types.Typ[types.Bool]
	tString = types.Typ[types.String]
	tMath   = types.Typ[types.UntypedInt] // mathematical integer (no wrap)
	tFloat  = types.Typ[types.Float64]
)

func (c *FnCtx) eval(env *Env, e Expr) Val {
	switch x := e.(type) {
	case *EInt:
		v, err := strconv.ParseInt(x.V, 0, 64)
		if err != nil {
			// big literal
			return Val{T: tMath, E: x.V}
		}
		return Val{T: tMath, E: IntLit(v)}
	case *EStr:
		return Val{T: tString, E: c.ty.StrLit(x.V)}
	case *EBool:
		if x.V {
			return Val{T: tBool, E: "true"}
		}
		return Val{T: tBool, E: "false"}
	case *ENil:
		return Val{T: types.Typ[types.UntypedNil], E: "NIL"}
	case *EIdent:
		return c.lookup(env, x.Name)
	case *EUnary:
		v := c.eval(env, x.X)
		switch x.Op {
		case "!":
			return Val{T: tBool, E: Not(v.E)}
		case "-":
			if c.ty.SortOf(v.T) == sFlt {
				return Val{T: v.T, E: "(fneg " + v.E + ")"}
			}
			return Val{T: v.T, E: "(- " + v.E + ")"}
		}
	case *EBinary:
		return c.evalBinary(env, x)
	case *ECond:
		cnd := c.evalBool(env, x.C)
		a, b := c.eval(env, x.A), c.eval(env, x.B)
		a, b = c.unify(a, b)
		return Val{T: a.T, E: Ite(cnd, a.E, b.E)}
	case *ESel:
		// package-qualified name?
		if id, ok := x.X.(*EIdent); ok {
			if v, ok := c.lookupQualified(env, id.Name, x.Name); ok {
				return v
			}
		}
		base := c.eval(env, x.X)
		return c.selectField(env, base, x.Name)
	case *EIndex:
		base := c.eval(env, x.X)
		idx := c.eval(env, x.I)
		return c.indexVal(env, base, idx)
	case *ESlice:
		base := c.eval(env, x.X)
		lo, hi := "0", ""
		if x.Lo != nil {
			lo = c.eval(env, x.Lo).E
		}
		if _, ok := base.T.Underlying().(*types.Slice); !ok {
			panic(specError("slice expression on non-slice"))
		}
		hi = "(s-len " + base.E + ")"
		if x.Hi != nil {
			hi = c.eval(env, x.Hi).E
		}
		return Val{T: base.T, E: fmt.Sprintf("(mk-slice (s-arr %[1]s) (+ (s-off %[1]s) %[2]s) (- %[3]s %[2]s) (- (s-cap %[1]s) %[2]s))", base.E, lo, hi)}
	case *EQuant:
		return c.evalQuant(env, x)
	case *ECall:
		return c.evalCall(env, x)
	case *EType:
		return Val{E: "TYPE:" + x.T}
	}
	panic(specError(fmt.Sprintf("cannot evaluate %T", e)))
}

func (c *FnCtx) unify(a, b Val) (Val, Val) {
	if a.E == "NIL" && b.E == "NIL" {
		return a, b
	}
	if a.E == "NIL" {
		a = Val{T: b.T, E: c.ty.Zero(b.T)}
	}
	if b.E == "NIL" {
		b = Val{T: a.T, E: c.ty.Zero(a.T)}
	}
	if a.T == tMath && b.T != tMath {
		if c.ty.SortOf(b.T) == sFlt {
			a = Val{T: b.T, E: "(fin (to_real " + a.E + "))"}
		} else {
			a.T = b.T
		}
	}
	if b.T == tMath && a.T != tMath {
		if c.ty.SortOf(a.T) == sFlt {
			b = Val{T: a.T, E: "(fin (to_real " + b.E + "))"}
		} else {
			b.T = a.T
		}
	}
	return a, b
}

func (c *FnCtx) evalBinary(env *Env, x *EBinary) Val {
	switch x.Op {
	case "&&":
		return Val{T: tBool, E: And(c.evalBool(env, x.X), c.evalBool(env, x.Y))}
	case "||":
		return Val{T: tBool, E: Or(c.evalBool(env, x.X), c.evalBool(env, x.Y))}
	case "==>":
		return Val{T: tBool, E: Implies(c.evalBool(env, x.X), c.evalBool(env, x.Y))}
	case "<==>":
		return Val{T: tBool, E: Eq(c.evalBool(env, x.X), c.evalBool(env, x.Y))}
	}
	a, b := c.eval(env, x.X), c.eval(env, x.Y)
	a, b = c.unify(a, b)
	if a.E == "NIL" {
		panic(specError("nil == nil"))
	}
	srt := c.ty.SortOf(a.T)
	switch x.Op {
	case "==", "!=":
		var e string
		if srt == sFlt {
			// in specifications == on floats is identity of values (NaN == NaN); IEEE comparison is feq(x, y)
			e = Eq(a.E, b.E)
		} else if _, isSl := a.T.Underlying().(*types.Slice); isSl && (b.E == nilSlice || a.E == nilSlice) {
			o := a.E
			if o == nilSlice {
				o = b.E
			}
			e = "(= (s-arr " + o + ") 0)"
		} else {
			e = Eq(a.E, b.E)
		}
		if x.Op == "!=" {
			e = Not(e)
		}
		return Val{T: tBool, E: e}
	case "<", "<=", ">", ">=":
		if srt == sFlt {
			switch x.Op {
			case "<":
				return Val{T: tBool, E: "(flt " + a.E + " " + b.E + ")"}
			case "<=":
				return Val{T: tBool, E: "(fle " + a.E + " " + b.E + ")"}
			case ">":
				return Val{T: tBool, E: "(flt " + b.E + " " + a.E + ")"}
			default:
				return Val{T: tBool, E: "(fle " + b.E + " " + a.E + ")"}
			}
		}
		return Val{T: tBool, E: "(" + x.Op + " " + a.E + " " + b.E + ")"}
	case "+", "-", "*":
		// spec arithmetic is mathematical (unbounded); use wrap64(...) etc. explicitly when machine semantics is meant
		if srt == sFlt {
			op := map[string]string{"+": "fadd", "-": "fsub", "*": "fmul"}[x.Op]
			return Val{T: a.T, E: "(" + op + " " + a.E + " " + b.E + ")"}
		}
		return Val{T: mathOf(a.T), E: "(" + x.Op + " " + a.E + " " + b.E + ")"}
	case "/":
		if srt == sFlt {
			return Val{T: a.T, E: "(fdiv " + a.E + " " + b.E + ")"}
		}
		return Val{T: mathOf(a.T), E: "(godiv " + a.E + " " + b.E + ")"}
	case "%":
		return Val{T: mathOf(a.T), E: "(gorem " + a.E + " " + b.E + ")"}
	}
	panic(specError("operator " + x.Op))
}

func mathOf(t types.Type) types.Type {
	if b, ok := t.Underlying().(*types.Basic); ok && b.Info()&types.IsInteger != 0 {
		return tMath
	}
	return t
}

func (c *FnCtx) evalQuant(env *Env, x *EQuant) Val {
	ne := *env
	ne.bound = map[string]Val{}
	for k, v := range env.bound {
		ne.bound[k] = v
	}
	var decls, guards []string
	for _, qv := range x.Vars {
		t := c.eng.resolveType(env.specPkg, qv.Type)
		if t == nil {
			panic(specError("unknown type " + qv.Type))
		}
		c.sc.nameSeq++
		n := q(fmt.Sprintf("q$%s!%d", qv.Name, c.sc.nameSeq))
		decls = append(decls, "("+n+" "+c.ty.SortOf(t)+")")
		ne.bound[qv.Name] = Val{T: t, E: n}
		if qv.Type == "int" || qv.Type == "mathint" {
			continue // quantification over all integers (indices); no machine range
		}
		if inv := c.ty.Inv(t, n); inv != "true" {
			guards = append(guards, inv)
		}
	}
	body := c.evalBool(&ne, x.Body)
	// Index variables are re-expressed as absolute positions in the backing array, so that the quantifier's
	// trigger is (select (select E arr) a) with a plain variable a: E-matching then finds instances whatever
	// the arithmetic shape of the ground index (sub-slices, i+j, ...).
	origBody, origDecls := body, append([]string(nil), decls...)
	mixed := false
	for k, qv := range x.Vars {
		if qv.Type != "int" {
			continue
		}
		v := ne.bound[qv.Name].E
		var m bool
		body, decls[k], m = absoluteIndex(body, v, decls[k])
		mixed = mixed || m
	}
	mk := func(ds []string, b string) string {
		if x.Forall {
			return "(forall (" + strings.Join(ds, " ") + ") " + Implies(And(guards...), b) + ")"
		}
		return "(exists (" + strings.Join(ds, " ") + ") " + And(append(append([]string(nil), guards...), b)...) + ")"
	}
	if false && mixed && x.Forall {
		// the variable also indexes something else: state the (equivalent) formula in both shapes, each offers its triggers
		return Val{T: tBool, E: "(and " + mk(origDecls, origBody) + " " + mk(decls, body) + ")"}
	}
	return Val{T: tBool, E: mk(decls, body)}
}

var sliceIdxRe = regexp.MustCompile(`\(\+ \(s-off ((?:\|[^|]*\|)|[a-z\-]+)\) (\|q\$[^|]*\|)\)`)

func absoluteIndex(body, v, decl string) (string, string, bool) {
	if !strings.Contains(body, v) {
		return body, decl, false
	}
	tree := parseSx(body)
	base := findSliceBase(tree, v)
	if base == "" {
		return body, decl, false
	}
	norm := tree.String() // canonical spacing, so that textual replacement of sub-terms is exact
	a := strings.TrimSuffix(v, "|") + "@abs|"
	direct := "(+ (s-off " + base + ") " + v + ")"
	norm = strings.ReplaceAll(norm, direct, a)
	norm = strings.ReplaceAll(norm, v, "(- "+a+" (s-off "+base+"))")
	return norm, "(" + a + " Int)", false
}

func (c *FnCtx) lookup(env *Env, name string) Val {
	if v, ok := env.bound[name]; ok {
		return v
	}
	if v, ok := env.names[name]; ok {
		return v
	}
	fr := env.fr
	if fr != nil {
		// loop counter name for range loops
		if env.loop != nil && env.loop.spec != nil && env.loop.spec.CountName == name {
			return c.loopCount(env)
		}
		// phi at the current loop header with this source name
		if env.loop != nil {
			for _, p := range env.loop.phis {
				if p.Comment == name {
					return c.envVal(env, p)
				}
			}
		}
		// parameters by source name; a parameter that is captured or address-taken lives in a cell of the same name:
		// the source name then denotes the variable's current content (the contract's positional name keeps the entry value)
		for _, p := range fr.fn.Params {
			if p.Name() == name {
				for _, b := range fr.fn.Blocks {
					for _, ins := range b.Instrs {
						if a, ok := ins.(*ssa.Alloc); ok && a.Comment == name {
							if pv, ok := fr.vals[a]; ok && (fr.entry == nil || env.st != fr.entry) {
								return c.load(env.st, c.ptrLocNoCheck(pv), nil)
							}
						}
					}
				}
				if fr.entry != nil && env.st != fr.entry {
					// a parameter that the body reassigns (id = intercept(id)): past the entry state the source name
					// denotes the variable's current value, like any other local
					if v, ok := c.debugName(env, name); ok {
						return v
					}
				}
				return c.envVal(env, p)
			}
		}
		// captured variables (closures): cells
		for k, fv := range fr.fn.FreeVars {
			if fv.Name() == name && k < len(fr.free) {
				cell := fr.free[k]
				l := c.ptrLocNoCheck(cell)
				return c.load(env.st, l, nil)
			}
		}
		// local variables held in alloc cells
		for _, b := range fr.fn.Blocks {
			for _, ins := range b.Instrs {
				if a, ok := ins.(*ssa.Alloc); ok && a.Comment == name {
					if pv, ok := fr.vals[a]; ok {
						return c.load(env.st, c.ptrLocNoCheck(pv), nil)
					}
				}
			}
		}
		// named SSA values via debug refs
		if v, ok := c.debugName(env, name); ok {
			return v
		}
		// the local was renamed since the baseline was taken: bind by position (same loop, same phi index, same type)
		if v, ok := c.baselineName(env, name); ok {
			return v
		}
	}
	// package-level
	if v, ok := c.lookupQualified(env, "", name); ok {
		return v
	}
	if env.upFrames && fr != nil && fr.parent != nil {
		// step clauses evaluated inside inlined code: names of the (inlined) callers are in scope too
		ne := *env
		ne.fr = fr.parent
		ne.loop = nil
		return c.lookup(&ne, name)
	}
	panic(specError("unknown name " + name))
}

func (c *FnCtx) tryLookup(env *Env, name string) (v Val, ok bool) {
	if strings.Contains(name, ".") {
		return Val{}, false
	}
	defer func() {
		if r := recover(); r != nil {
			if _, isSpec := r.(specError); isSpec {
				ok = false
				return
			}
			panic(r)
		}
	}()
	return c.lookup(env, name), true
}

func (c *FnCtx) hasMethod(t types.Type, name string) bool {
	if t == nil {
		return false
	}
	if it, ok := t.Underlying().(*types.Interface); ok {
		for i := 0; i < it.NumMethods(); i++ {
			if it.Method(i).Name() == name {
				return true
			}
		}
		return false
	}
	for _, tt := range []types.Type{t, types.NewPointer(t)} {
		ms := types.NewMethodSet(tt)
		for i := 0; i < ms.Len(); i++ {
			if ms.At(i).Obj().Name() == name {
				return true
			}
		}
	}
	return false
}

// tryLookupPath resolves a dotted path a.b.c whose head is a variable (not a package).
func (c *FnCtx) tryLookupPath(env *Env, path string) (v Val, ok bool) {
	parts := strings.Split(path, ".")
	head, ok := c.tryLookup(env, parts[0])
	if !ok {
		return Val{}, false
	}
	defer func() {
		if r := recover(); r != nil {
			if _, isSpec := r.(specError); isSpec {
				ok = false
				return
			}
			panic(r)
		}
	}()
	for _, p := range parts[1:] {
		head = c.selectField(env, head, p)
	}
	return head, true
}

func (c *FnCtx) ptrLocNoCheck(p Val) *Loc {
	if p.Loc != nil {
		return p.Loc
	}
	elem := p.T.Underlying().(*types.Pointer).Elem()
	if isStructVal(elem) {
		return &Loc{Kind: locField, Ref: p.E, RootT: elem}
	}
	return &Loc{Kind: locCell, Ref: p.E, RootT: elem, Comp: c.cellHeap(elem)}
}

func (c *FnCtx) envVal(env *Env, v ssa.Value) Val {
	if env.override != nil {
		if o, ok := env.override[v]; ok {
			return o
		}
	}
	return c.val(env.fr, v)
}

func (c *FnCtx) loopRange(env *Env) *rangeState {
	if env.loop == nil {
		return nil
	}
	for _, b := range env.fr.fn.Blocks {
		if !env.loop.body[b] {
			continue
		}
		for _, ins := range b.Instrs {
			if nx, ok := ins.(*ssa.Next); ok {
				if it, ok := env.fr.vals[nx.Iter]; ok {
					if rs := c.ranges[it.E]; rs != nil {
						return rs
					}
				}
			}
		}
	}
	return nil
}

func (c *FnCtx) loopCount(env *Env) Val {
	for _, p := range env.loop.phis {
		if p.Comment == "rangeindex" {
			v := c.envVal(env, p)
			return Val{T: tInt, E: "(+ " + v.E + " 1)"}
		}
	}
	// map range: position local
	for _, b := range env.fr.fn.Blocks {
		if !env.loop.body[b] {
			continue
		}
		for _, ins := range b.Instrs {
			if nx, ok := ins.(*ssa.Next); ok {
				if it, ok := env.fr.vals[nx.Iter]; ok {
					if rs := c.ranges[it.E]; rs != nil {
						return env.st.locals[rs.pos]
					}
				}
			}
		}
	}
	// range over a channel: one receive per iteration, so the number of completed iterations is the number of values
	// received from that channel since the loop was entered
	for _, ins := range env.loop.header.Instrs {
		if u, ok := ins.(*ssa.UnOp); ok && u.Op == token.ARROW && u.CommaOk && env.loop.pre != nil {
			ch := c.envVal(env, u.X)
			now := "(select " + c.heapGet(env.st, c.chRecvd()) + " " + ch.E + ")"
			then := "(select " + c.heapGet(env.loop.pre, c.chRecvd()) + " " + ch.E + ")"
			return Val{T: tInt, E: "(- " + now + " " + then + ")"}
		}
	}
	panic(specError("loop has no range counter"))
}

// debugName resolves a source variable name through DebugRef instructions.
func (c *FnCtx) debugName(env *Env, name string) (Val, bool) {
	fr := env.fr
	var found ssa.Value
	var hdr *ssa.BasicBlock
	if env.loop != nil {
		hdr = env.loop.header
	}
	for _, b := range fr.fn.Blocks {
		for _, ins := range b.Instrs {
			d, ok := ins.(*ssa.DebugRef)
			if !ok || d.IsAddr {
				continue
			}
			id := identName(d)
			if id != name {
				continue
			}
			if _, defd := fr.vals[d.X]; !defd {
				if _, isC := d.X.(*ssa.Const); !isC {
					continue
				}
			}
			if hdr != nil && !env.anyDef {
				if vi, ok := d.X.(ssa.Instruction); ok && !vi.Block().Dominates(hdr) {
					continue
				}
			}
			found = d.X
		}
	}
	if found == nil {
		return Val{}, false
	}
	return c.envVal(env, found), true
}

func identName(d *ssa.DebugRef) string {
	type named interface{ Name() string }
	if obj := d.Object(); obj != nil {
		return obj.Name()
	}
	return ""
}

func (c *FnCtx) lookupQualified(env *Env, pkgName, name string) (Val, bool) {
	// package-level variables and constants of the spec's package (or an imported package)
	pkg := c.eng.findPackage(env.specPkg, pkgName)
	if pkg == nil {
		return Val{}, false
	}
	obj := pkg.Types.Scope().Lookup(name)
	if obj == nil {
		return Val{}, false
	}
	switch o := obj.(type) {
	case *types.Const:
		return Val{T: o.Type(), E: c.ty.ConstTerm(defaultType(o.Type()), o.Val())}, true
	case *types.Var:
		sp := c.eng.prog.Package(pkg.Types)
		if sp == nil {
			return Val{}, false
		}
		g, ok := sp.Members[name].(*ssa.Global)
		if !ok {
			return Val{}, false
		}
		gv := c.globalAddr(g)
		return c.load(env.st, gv.Loc, nil), true
	}
	return Val{}, false
}

func defaultType(t types.Type) types.Type {
	if b, ok := t.(*types.Basic); ok && b.Info()&types.IsUntyped != 0 {
		return types.Default(t)
	}
	return t
}

func (c *FnCtx) selectField(env *Env, base Val, name string) Val {
	t := base.T
	if t == nil {
		panic(specError("selector on untyped value ." + name))
	}
	// auto-deref pointers
	if pt, ok := t.Underlying().(*types.Pointer); ok {
		st, ok := pt.Elem().Underlying().(*types.Struct)
		if !ok {
			panic(specError("selector on pointer to non-struct"))
		}
		idx, emb := findField(st, name)
		if idx < 0 {
			if emb != nil {
				return c.selectField(env, c.selectField(env, base, emb.Name()), name)
			}
			panic(specError("no field " + name + " in " + pt.Elem().String()))
		}
		ft := st.Field(idx).Type()
		if isStructVal(ft) {
			// embedded struct by value: address
			return Val{T: types.NewPointer(ft), E: c.faddr(pt.Elem(), idx, base.E)}
		}
		h := c.fieldHeap(pt.Elem(), idx)
		fv := Val{T: ft, E: "(select " + c.heapGet(env.st, h) + " " + base.E + ")"}
		if n, ok := pt.Elem().(*types.Named); ok {
			fv.From = n.Obj().Name() + "." + name
		}
		return fv
	}
	if st, ok := t.Underlying().(*types.Struct); ok {
		idx, emb := findField(st, name)
		if idx < 0 {
			if emb != nil {
				return c.selectField(env, c.selectField(env, base, emb.Name()), name)
			}
			panic(specError("no field " + name + " in " + t.String()))
		}
		si := c.ty.structInfoOf(t)
		fv := Val{T: st.Field(idx).Type(), E: App(si.fields[idx], base.E)}
		if n, ok := t.(*types.Named); ok {
			fv.From = n.Obj().Name() + "." + name
		}
		return fv
	}
	panic(specError("selector ." + name + " on " + t.String()))
}

func findField(st *types.Struct, name string) (int, *types.Var) {
	for i := 0; i < st.NumFields(); i++ {
		if st.Field(i).Name() == name {
			return i, nil
		}
	}
	for i := 0; i < st.NumFields(); i++ {
		f := st.Field(i)
		if !f.Embedded() {
			continue
		}
		ft := f.Type()
		if p, ok := ft.Underlying().(*types.Pointer); ok {
			ft = p.Elem()
		}
		if s2, ok := ft.Underlying().(*types.Struct); ok {
			if j, _ := findField(s2, name); j >= 0 {
				return -1, f
			}
		}
	}
	return -1, nil
}

func (c *FnCtx) indexVal(env *Env, base, idx Val) Val {
	switch bt := base.T.Underlying().(type) {
	case *types.Slice:
		h := c.elemHeap(bt.Elem())
		return Val{T: bt.Elem(), E: "(select (select " + c.heapGet(env.st, h) + " (s-arr " + base.E + ")) (+ (s-off " + base.E + ") " + idx.E + "))"}
	case *types.Map:
		_, val, _ := c.mapHeaps(bt)
		return Val{T: bt.Elem(), E: "(select (select " + c.heapGet(env.st, val) + " " + base.E + ") " + idx.E + ")"}
	}
	panic(specError("index on " + base.T.String()))
}

// evalMethod: spec-level call of a read-only library method (protoreflect accessors, pure library methods); it
// denotes the same uninterpreted function the code's own call is translated to.
func (c *FnCtx) evalMethod(env *Env, recv Val, name string, args []Val) Val {
	if it, ok := recv.T.Underlying().(*types.Interface); ok {
		if cb := c.eng.callbackSpecFor(nil, shortIfaceName(recv.T)+"."+name); cb != nil && cb.Pure {
			for i := 0; i < it.NumMethods(); i++ {
				if m := it.Method(i); m.Name() == name {
					sig := m.Type().(*types.Signature)
					for k := range args {
						if k < sig.Params().Len() {
							pt := sig.Params().At(k).Type()
							if args[k].E == "NIL" {
								args[k] = Val{T: pt, E: c.ty.Zero(pt)}
							}
							args[k].T = pt
						}
					}
					r := c.uninterp(nil, "cb$"+cb.Name, append([]Val{recv}, c.pureArgs(env.st, args)...), sig.Results())
					return *r
				}
			}
		}
	}
	if isProtoreflectType(recv.T) {
		if it, ok := recv.T.Underlying().(*types.Interface); ok {
			for i := 0; i < it.NumMethods(); i++ {
				if m := it.Method(i); m.Name() == name {
					r := c.uninterp(nil, "inv$"+shortTypeName(recv.T)+"."+name, append([]Val{recv}, args...), m.Type().(*types.Signature).Results())
					return *r
				}
			}
		}
	}
	for _, t := range []types.Type{recv.T, types.NewPointer(recv.T)} {
		ms := c.eng.prog.MethodSets.MethodSet(t)
		for i := 0; i < ms.Len(); i++ {
			if ms.At(i).Obj().Name() != name {
				continue
			}
			fn := c.eng.prog.MethodValue(ms.At(i))
			if fn != nil && c.eng.isPureLib(fn) {
				r := c.uninterp(nil, "lib$"+c.eng.funcName(fn), append([]Val{recv}, args...), fn.Signature.Results())
				return *r
			}
			if fn != nil {
				if pf := c.eng.preludeFor(fn); pf != nil && env.st != nil {
					if r := pf(c, env.fr, env.st, fn, append([]Val{recv}, args...), 0); r != nil {
						return *r
					}
				}
			}
		}
	}
	panic(specError("method " + name + " cannot be used in specifications (not a pure library accessor)"))
}

func (c *FnCtx) evalCall(env *Env, x *ECall) Val {
	arg := func(i int) Val { return c.eval(env, x.Args[i]) }
	if x.Recv != nil {
		var as []Val
		for i := range x.Args {
			as = append(as, arg(i))
		}
		return c.evalMethod(env, c.eval(env, x.Recv), x.Fun, as)
	}
	if k := strings.LastIndex(x.Fun, "."); k > 0 {
		// v.M(...) where v is a variable: a method call, not a package-qualified function
		if rv, ok := c.tryLookupPath(env, x.Fun[:k]); ok && c.hasMethod(rv.T, x.Fun[k+1:]) {
			var as []Val
			for i := range x.Args {
				as = append(as, arg(i))
			}
			return c.evalMethod(env, rv, x.Fun[k+1:], as)
		}
	}
	if x.Fun == "app0" || x.Fun == "app1" {
		fv := arg(0)
		sig, isSig := fv.T.Underlying().(*types.Signature)
		cb := c.eng.callbackSpec(fv.T)
		if !isSig || cb == nil || !cb.Pure {
			panic(specError(x.Fun + ": not a function value of a type declared 'callback ...: pure'"))
		}
		all := []Val{{T: fv.T, E: fv.E}}
		for i := 1; i < len(x.Args); i++ {
			a := arg(i)
			if i-1 < sig.Params().Len() {
				pt := sig.Params().At(i - 1).Type()
				if a.E == "NIL" {
					a = Val{T: pt, E: c.ty.Zero(pt)}
				}
				a.T = pt
			}
			all = append(all, a)
		}
		r := c.uninterp(nil, "cb$"+cb.Name, append(all[:1], c.pureArgs(env.st, all[1:])...), sig.Results())
		if sig.Results().Len() == 1 {
			return *r
		}
		if x.Fun == "app0" {
			return r.Tuple[0]
		}
		return r.Tuple[1]
	}
	switch x.Fun {
	case "old":
		ne := *env
		ne.st = env.old
		if env.old == nil {
			panic(specError("old() not available here"))
		}
		return c.eval(&ne, x.Args[0])
	case "pre":
		// pre(e): value of e when the current loop was entered
		if env.loop == nil || env.loop.pre == nil {
			panic(specError("pre() outside a loop invariant"))
		}
		ne := *env
		ne.st = env.loop.pre
		return c.eval(&ne, x.Args[0])
	case "rkey", "ridx":
		// the ghost enumeration of a range over a map (loop invariants only): rkey(j) is the j-th key visited,
		// ridx(key) the position at which a present key is visited; a bijection between [0,n) and the key set
		rs := c.loopRange(env)
		if rs == nil {
			panic(specError(x.Fun + "() outside the invariant of a range-over-map loop"))
		}
		v := arg(0)
		if x.Fun == "rkey" {
			return Val{T: rs.mapT.Key(), E: "(select " + rs.keys + " " + v.E + ")"}
		}
		return Val{T: tInt, E: "(select " + rs.idx + " " + v.E + ")"}
	case "len":
		v := arg(0)
		switch vt := v.T.Underlying().(type) {
		case *types.Slice:
			return Val{T: tInt, E: "(s-len " + v.E + ")"}
		case *types.Basic:
			return Val{T: tInt, E: "(strlen " + v.E + ")"}
		case *types.Map:
			_, _, ln := c.mapHeaps(vt)
			return Val{T: tInt, E: "(ite (= " + v.E + " 0) 0 (select " + c.heapGet(env.st, ln) + " " + v.E + "))"}
		}
		panic(specError("len of " + v.T.String()))
	case "cap":
		v := arg(0)
		return Val{T: tInt, E: "(s-cap " + v.E + ")"}
	case "has":
		m, k := arg(0), arg(1)
		mt, ok := m.T.Underlying().(*types.Map)
		if !ok {
			panic(specError("has() on non-map"))
		}
		has, _, _ := c.mapHeaps(mt)
		return Val{T: tBool, E: "(and (not (= " + m.E + " 0)) (select (select " + c.heapGet(env.st, has) + " " + m.E + ") " + k.E + "))"}
	case "istype":
		v := arg(0)
		tn := typeArgText(x.Args[1])
		t := c.eng.resolveType(env.specPkg, tn)
		if t == nil {
			panic(specError("unknown type " + tn))
		}
		return Val{T: tBool, E: fmt.Sprintf("(= (i-tag %s) %d)", v.E, c.ty.TypeID(t))}
	case "deref":
		// deref(p): the value a pointer to a basic (non-struct) type points to, in the state the expression is evaluated in
		v := arg(0)
		pt, ok := v.T.Underlying().(*types.Pointer)
		if !ok {
			panic(specError("deref: not a pointer"))
		}
		if _, isStruct := pt.Elem().Underlying().(*types.Struct); isStruct {
			panic(specError("deref: use field selection on pointers to structs"))
		}
		return Val{T: pt.Elem(), E: "(select " + c.heapGet(env.st, c.cellHeap(pt.Elem())) + " " + v.E + ")"}
	case "implements":
		// implements(x, I): the dynamic type of the (non-nil) interface value x implements interface type I
		v := arg(0)
		tn := typeArgText(x.Args[1])
		t := c.eng.resolveType(env.specPkg, tn)
		if t == nil {
			panic(specError("unknown type " + tn))
		}
		if _, ok := t.Underlying().(*types.Interface); !ok {
			panic(specError("implements: " + tn + " is not an interface type"))
		}
		return Val{T: tBool, E: c.implementsPred(v.E, t)}
	case "cast":
		v := arg(0)
		tn := typeArgText(x.Args[1])
		t := c.eng.resolveType(env.specPkg, tn)
		if t == nil {
			panic(specError("unknown type " + tn))
		}
		if c.ty.SortOf(v.T) != sIface {
			nv := v
			nv.T = t
			return nv
		}
		return Val{T: t, E: c.unboxed(t, "(i-val "+v.E+")")}
	case "iface":
		// iface(x): the interface value holding x
		v := arg(0)
		return Val{T: types.NewInterfaceType(nil, nil), E: fmt.Sprintf("(mk-iface %d %s)", c.ty.TypeID(v.T), c.boxed(v.T, v.E))}
	case "isnil":
		v := arg(0)
		switch c.ty.SortOf(v.T) {
		case sIface:
			return Val{T: tBool, E: "(= (i-tag " + v.E + ") 0)"}
		case sSlice:
			return Val{T: tBool, E: "(= (s-arr " + v.E + ") 0)"}
		}
		return Val{T: tBool, E: "(= " + v.E + " 0)"}
	case "wrap64", "wrap32":
		v := arg(0)
		t := types.Type(tInt64)
		if x.Fun == "wrap32" {
			t = types.Typ[types.Int32]
		}
		return Val{T: t, E: "(" + x.Fun + " " + v.E + ")"}
	case "abs":
		v := arg(0)
		if c.ty.SortOf(v.T) == sFlt {
			return Val{T: v.T, E: "(fabs " + v.E + ")"}
		}
		return Val{T: v.T, E: "(ite (< " + v.E + " 0) (- " + v.E + ") " + v.E + ")"}
	case "min", "max":
		a, b := c.unify(arg(0), arg(1))
		if c.ty.SortOf(a.T) == sFlt {
			return Val{T: a.T, E: "(f" + x.Fun + " " + a.E + " " + b.E + ")"}
		}
		op := "<"
		if x.Fun == "max" {
			op = ">"
		}
		return Val{T: a.T, E: "(ite (" + op + " " + a.E + " " + b.E + ") " + a.E + " " + b.E + ")"}
	case "feq":
		a, b := c.unify(arg(0), arg(1))
		return Val{T: tBool, E: "(feq " + a.E + " " + b.E + ")"}
	case "isNaN":
		return Val{T: tBool, E: "((_ is nan) " + arg(0).E + ")"}
	case "isInf":
		v := arg(0)
		return Val{T: tBool, E: "(or ((_ is pinf) " + v.E + ") ((_ is ninf) " + v.E + "))"}
	case "isFin":
		return Val{T: tBool, E: "((_ is fin) " + arg(0).E + ")"}
	case "real":
		v := arg(0)
		return Val{T: tFloat, E: "(fin (to_real " + v.E + "))"}
	case "fresh":
		// fresh(p): p was allocated during this call
		v := arg(0)
		if env.fr == nil || env.fr.entry == nil {
			panic(specError("fresh() outside function"))
		}
		return Val{T: tBool, E: "(>= " + refOf(c, v) + " " + env.fr.entry.alloc + ")"}
	case "allocated":
		v := arg(0)
		return Val{T: tBool, E: "(< " + refOf(c, v) + " " + env.old.alloc + ")"}
	}
	if v, ok := c.eng.evalGhostCall(c, env, x); ok {
		return v
	}
	// application of a callback value that is declared pure: the same uninterpreted function the code's call uses
	fvp, okp := Val{}, false
	if strings.Contains(x.Fun, ".") {
		fvp, okp = c.tryLookupPath(env, x.Fun)
	} else {
		fvp, okp = c.tryLookup(env, x.Fun)
	}
	if fv := fvp; okp && fv.T != nil {
		if sig, isSig := fv.T.Underlying().(*types.Signature); isSig {
			cb := c.eng.callbackSpecFor(fv.T, fv.From)
			if (cb == nil || !cb.Pure) && fv.Clo != nil && env.st != nil {
				// a closure of the verified code itself (e.g. handed to a contracted callee): its own body as a term
				var ps []Val
				for i := range x.Args {
					a := arg(i)
					if i < sig.Params().Len() {
						a.T = sig.Params().At(i).Type()
					}
					ps = append(ps, a)
				}
				res, _ := c.closureTerm(env.fr, env.st, fv.Clo, ps)
				if len(res) == 1 {
					return res[0]
				}
				return Val{T: sig.Results(), Tuple: res}
			}
			if cb == nil || !cb.Pure {
				panic(specError("call of function value " + x.Fun + " whose type has no 'callback ...: pure' declaration"))
			}
			all := []Val{{T: fv.T, E: fv.E}}
			for i := range x.Args {
				a := arg(i)
				if i < sig.Params().Len() {
					pt := sig.Params().At(i).Type()
					if a.E == "NIL" {
						a = Val{T: pt, E: c.ty.Zero(pt)}
					}
					a.T = pt
				}
				all = append(all, a)
			}
			r := c.uninterp(nil, "cb$"+cb.Name, append(all[:1], c.pureArgs(env.st, all[1:])...), sig.Results())
			return *r
		}
	}
	// user-defined pure spec functions (macro expansion)
	pf := c.eng.specs.Pures[env.specPkg+"."+x.Fun]
	if pf == nil {
		pf = c.eng.specs.Pures[x.Fun]
	}
	if pf != nil {
		if len(x.Args) != len(pf.Params) {
			panic(specError(fmt.Sprintf("%s expects %d arguments", x.Fun, len(pf.Params))))
		}
		if env.depth > 12 {
			panic(specError("pure function recursion too deep: " + x.Fun))
		}
		ne := *env
		ne.names = map[string]Val{}
		ne.bound = map[string]Val{}
		ne.specPkg = pf.Pkg
		ne.fr = nil
		ne.loop = nil
		ne.depth = env.depth + 1
		for k, p := range pf.Params {
			ne.names[p] = c.eval(env, x.Args[k])
		}
		return c.eval(&ne, pf.Body)
	}
	// uninterpreted spec functions constrained by axioms
	if sf, ok := c.eng.specs.SpecFuncs[x.Fun]; ok {
		var as, sorts []string
		for i := range x.Args {
			a := arg(i)
			pt := c.eng.resolveType(sf.Pkg, sf.Params[i].Type)
			if pt == nil {
				panic(specError("unknown type " + sf.Params[i].Type))
			}
			if a.E == "NIL" {
				a.E = c.ty.Zero(pt)
			}
			as = append(as, a.E)
			sorts = append(sorts, c.ty.SortOf(pt))
		}
		rt := c.eng.resolveType(sf.Pkg, sf.Result)
		if rt == nil {
			panic(specError("unknown type " + sf.Result))
		}
		f := q("spec$" + x.Fun)
		c.sc.Decl("specfn:"+x.Fun, fmt.Sprintf("(declare-fun %s (%s) %s)", f, strings.Join(sorts, " "), c.ty.SortOf(rt)))
		return Val{T: rt, E: App(f, as...)}
	}
	panic(specError("unknown function " + x.Fun))
}

func refOf(c *FnCtx, v Val) string {
	switch c.ty.SortOf(v.T) {
	case sIface:
		return "(i-val " + v.E + ")"
	case sSlice:
		return "(s-arr " + v.E + ")"
	}
	return v.E
}

// baselineName resolves a source name that no longer exists through /verif/baseline/names.json, which records, for
// every function under contract on the unchanged tree, the loop-carried variables of each loop (in phi order) and the
// address-taken locals (in allocation order).  A pure rename keeps positions and types, so contracts keep working.
func (c *FnCtx) baselineName(env *Env, name string) (Val, bool) {
	bl := c.eng.baselineNames()
	fb, ok := bl[c.eng.funcName(env.fr.fn)]
	if !ok {
		return Val{}, false
	}
	if env.loop != nil {
		if names, ok := fb.Loops[fmt.Sprint(env.loop.ordinal)]; ok && len(names) == len(env.loop.phis) {
			for i, n := range names {
				if n.Name == name && shortTypeName(env.loop.phis[i].Type()) == n.Type {
					return c.envVal(env, env.loop.phis[i]), true
				}
			}
		}
	}
	var allocs []*ssa.Alloc
	for _, b := range env.fr.fn.Blocks {
		for _, ins := range b.Instrs {
			if a, ok := ins.(*ssa.Alloc); ok && a.Comment != "" {
				allocs = append(allocs, a)
			}
		}
	}
	if len(fb.Allocs) == len(allocs) {
		for i, n := range fb.Allocs {
			if n.Name == name && shortTypeName(allocs[i].Type()) == n.Type {
				if pv, ok := env.fr.vals[allocs[i]]; ok {
					return c.load(env.st, c.ptrLocNoCheck(pv), nil), true
				}
			}
		}
	}
	return Val{}, false
}

// typeArgText: the type argument of istype/cast, written `*T`, `[]T` (parsed as EType) or as a bare / qualified name.
func typeArgText(e Expr) string {
	switch t := e.(type) {
	case *EType:
		return t.T
	case *EIdent:
		return t.Name
	case *ESel:
		if id, ok := t.X.(*EIdent); ok {
			return id.Name + "." + t.Name
		}
	}
	panic(specError("type argument expected"))
}
