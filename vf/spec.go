package main

// Contract language: parsed from `//@` lines of /repo/**/verif_contracts.go (build tag verif, comment-only).
//
//   //@ property C18 C07
//   //@ pure func validTS(t) = t != nil && ...
//   //@ func CompareAscending(t1, t2) (r)
//   //@   requires ...
//   //@   ensures  ...
//   //@   loop 0 (k):
//   //@     invariant ...
//   //@ lemma name(a int, b int)
//   //@   requires ..
//   //@   ensures ..

import (
	"fmt"
	"os"
	"path/filepath"
	"strconv"
	"strings"
	"unicode"
)

// ---------------- expression AST ----------------

type Expr interface{}

type (
	EIdent struct{ Name string }
	EInt   struct{ V string }
	EStr   struct{ V string }
	EBool  struct{ V bool }
	ENil   struct{}
	EUnary struct {
		Op string
		X  Expr
	}
	EBinary struct {
		Op   string
		X, Y Expr
	}
	ESel struct {
		X    Expr
		Name string
	}
	EIndex struct{ X, I Expr }
	ESlice struct{ X, Lo, Hi Expr }
	ECall  struct {
		Fun  string
		Args []Expr
		Recv Expr // method call on an expression: Recv.Fun(Args)
	}
	EQuant struct {
		Forall bool
		Vars   []QVar
		Body   Expr
	}
	ECond struct{ C, A, B Expr }
	EType struct{ T string } // a type used as an argument (istype(x, *below))
)

type QVar struct {
	Name string
	Type string
}

// ---------------- contracts ----------------

type Clause struct {
	Label string // optional [label]
	Text  string
	E     Expr
	Mode  string // "", "SEQ", "INT"
	Line  int
}

type LoopSpec struct {
	Ordinal    int
	CountName  string // name for completed iterations of a range loop
	Invariants []Clause
	Decreases  *Clause
	Unroll     int      // bounded stand-in: unroll this many iterations (with an unwinding assertion)
	Asserts    []Clause // checked once, in the state in which the loop is entered
}

type FuncSpec struct {
	Pkg          string // package path
	Key          string // e.g. "CompareAscending", "(*below).CompareTo", "Outer$1"
	Params       []string
	Results      []string
	Props        []string
	SectionProps []string            // the properties of the section the contract stands in
	ClauseProps  map[string][]string // clause label -> properties it serves (label written as [name@C01+C04])
	Requires     []Clause
	Ensures      []Clause
	OnSend       []SendClause // step contracts: must hold for every value sent on the named channel
	OnRecv       []SendClause // assumptions about received values, keyed by element type
	OnMapStore   []SendClause // step contracts at m[key] = val on the named map
	OnDelete     []SendClause // step contracts at delete(m, key) on the named map (Chan holds the map's name or Type.field)
	Trusts       []Clause     // postconditions assumed at call sites but not checked against the body (listed as assumptions)
	Loops        map[int]*LoopSpec
	Lets         []LetSpec
	Inline       bool
	Trusted      bool // contract assumed, body not verified
	NoVerify     bool
	Pure         bool
	Modifies     []string // heap component patterns; nil = unspecified (derive), ["nothing"]
	HasMod       bool
	Preserves    []string // `preserves P`: components matching P are unchanged on pre-existing objects (a partial frame, checked)
	Replay       *ReplaySpec
	Replays      map[string]*ReplaySpec // per clause label
	Track        []string
	Asserts      map[string][]Clause // at call sites: "call <callee>" -> clauses
	Mode         string              // SEQ (default) or INT
	File         string
	Line         int
	Bounded      string
	Unroll       int
	Options      map[string]string
}

type SendClause struct {
	Chan string
	Clause
}

type LetSpec struct {
	Name string
	E    Expr
	Old  bool
}

type ReplaySpec struct {
	Driver string
	Args   []Expr
	Texts  []string
}

type PureFunc struct {
	Name   string
	Params []string
	Body   Expr
	Pkg    string
}

type LemmaSpec struct {
	Pkg      string
	Name     string
	Vars     []QVar
	Requires []Clause
	Ensures  []Clause
	Props    []string
	File     string
	Line     int
}

type TypeSpec struct {
	Pkg     string
	Name    string
	Guarded map[string][]string // mutex field -> guarded fields
	LockInv map[string][]Clause
	Props   []string
}

type CallbackSpec struct {
	Pkg          string
	Name         string // func type name or "Type.field"
	Pure         bool
	Closed       bool  // every value of this function type is created by the module's own constructors
	Writes       []int // indices of message arguments the callback may write (their abstract content becomes unknown)
	ValueOrError bool  // for a (value, error) result: the value is non-nil whenever the error is nil (assumed, listed)
	Modifies     []string
	Props        []string
}

type SpecFunc struct {
	Pkg    string
	Name   string
	Params []QVar
	Result string
}

type AxiomSpec struct {
	Pkg   string
	Name  string
	E     Expr
	Text  string
	Props []string
}

type SpecSet struct {
	Funcs     map[string]*FuncSpec // pkg + "." + key
	Pures     map[string]*PureFunc // pkg-qualified then bare
	Lemmas    []*LemmaSpec
	Types     map[string]*TypeSpec
	Callbacks map[string]*CallbackSpec
	Axioms    []*AxiomSpec
	SpecFuncs map[string]*SpecFunc
	Files     []string
}

func NewSpecSet() *SpecSet {
	return &SpecSet{Funcs: map[string]*FuncSpec{}, Pures: map[string]*PureFunc{}, Types: map[string]*TypeSpec{}, Callbacks: map[string]*CallbackSpec{}, SpecFuncs: map[string]*SpecFunc{}}
}

// LoadSpecs reads every verif_contracts*.go below root.  pkgOf maps a directory to its package path.
func LoadSpecs(root string, pkgOf func(dir string) string) (*SpecSet, error) {
	ss := NewSpecSet()
	var files []string
	filepath.Walk(root, func(p string, info os.FileInfo, err error) error {
		if err != nil {
			return nil
		}
		if info.IsDir() && (info.Name() == ".git" || info.Name() == "node_modules") {
			return filepath.SkipDir
		}
		if !info.IsDir() && strings.HasPrefix(info.Name(), "verif_contracts") && strings.HasSuffix(info.Name(), ".go") {
			files = append(files, p)
		}
		return nil
	})
	for _, f := range files {
		data, err := os.ReadFile(f)
		if err != nil {
			return nil, err
		}
		pkg := pkgOf(filepath.Dir(f))
		if err := ss.parseFile(f, pkg, string(data)); err != nil {
			return nil, err
		}
		ss.Files = append(ss.Files, f)
	}
	return ss, nil
}

type specLine struct {
	text string
	line int
}

func (ss *SpecSet) parseFile(file, pkg, src string) error {
	var lines []specLine
	for i, l := range strings.Split(src, "\n") {
		t := strings.TrimSpace(l)
		if strings.HasPrefix(t, "//@") {
			body := strings.TrimPrefix(t, "//@")
			// strip trailing comments introduced by " // "
			if k := strings.Index(body, " // "); k >= 0 {
				body = body[:k]
			}
			body = strings.TrimRight(body, " \t")
			if strings.TrimSpace(body) == "" {
				continue
			}
			// continuation lines: "//@ | more text" appends to the previous line
			if strings.HasPrefix(strings.TrimSpace(body), "| ") && len(lines) > 0 {
				lines[len(lines)-1].text += " " + strings.TrimSpace(strings.TrimSpace(body)[2:])
				continue
			}
			lines = append(lines, specLine{body, i + 1})
		}
	}
	var props []string
	var curF *FuncSpec
	var curLoop *LoopSpec
	var curLemma *LemmaSpec
	var curType *TypeSpec
	fail := func(ln int, format string, a ...any) error {
		return fmt.Errorf("%s:%d: %s", file, ln, fmt.Sprintf(format, a...))
	}
	for _, sl := range lines {
		t := strings.TrimSpace(sl.text)
		word, rest := splitWord(t)
		switch word {
		case "property":
			props = strings.Fields(rest)
			curF, curLoop, curLemma, curType = nil, nil, nil, nil
		case "pure":
			// pure func name(a, b) = expr
			w2, r2 := splitWord(rest)
			if w2 != "func" {
				return fail(sl.line, "expected 'pure func'")
			}
			eq := strings.Index(r2, "=")
			// find the '=' after the closing paren of the parameter list
			cp := strings.Index(r2, ")")
			if cp < 0 {
				return fail(sl.line, "bad pure func")
			}
			eq = cp + strings.Index(r2[cp:], "=")
			head := strings.TrimSpace(r2[:eq])
			body := strings.TrimSpace(r2[eq+1:])
			op := strings.Index(head, "(")
			name := strings.TrimSpace(head[:op])
			params := splitParams(head[op+1 : strings.LastIndex(head, ")")])
			e, err := ParseExpr(body)
			if err != nil {
				return fail(sl.line, "pure func %s: %v", name, err)
			}
			pf := &PureFunc{Name: name, Params: params, Body: e, Pkg: pkg}
			ss.Pures[pkg+"."+name] = pf
			if _, dup := ss.Pures[name]; !dup {
				ss.Pures[name] = pf
			}
			curF, curLoop, curLemma, curType = nil, nil, nil, nil
		case "spec":
			// spec func name(a T, b U) R   -- uninterpreted, constrained by axioms
			w2, r2 := splitWord(rest)
			if w2 != "func" {
				return fail(sl.line, "expected 'spec func'")
			}
			op := strings.Index(r2, "(")
			cp := matchParen(r2, op)
			sf := &SpecFunc{Pkg: pkg, Name: strings.TrimSpace(r2[:op]), Result: strings.TrimSpace(r2[cp+1:])}
			for _, p := range splitTop(r2[op+1:cp], ',') {
				p = strings.TrimSpace(p)
				if p == "" {
					continue
				}
				n, ty := splitWord(p)
				sf.Params = append(sf.Params, QVar{n, strings.TrimSpace(ty)})
			}
			for i := len(sf.Params) - 2; i >= 0; i-- {
				if sf.Params[i].Type == "" {
					sf.Params[i].Type = sf.Params[i+1].Type
				}
			}
			ss.SpecFuncs[sf.Name] = sf
			curF, curLoop, curLemma, curType = nil, nil, nil, nil
		case "func":
			fs, err := parseFuncHead(rest)
			if err != nil {
				return fail(sl.line, "%v", err)
			}
			fs.Pkg, fs.Props, fs.File, fs.Line = pkg, props, file, sl.line
			fs.SectionProps = props
			fs.Loops = map[int]*LoopSpec{}
			fs.Asserts = map[string][]Clause{}
			fs.Options = map[string]string{}
			ss.Funcs[pkg+"."+fs.Key] = fs
			curF, curLoop, curLemma, curType = fs, nil, nil, nil
		case "lemma":
			op := strings.Index(rest, "(")
			cp := strings.LastIndex(rest, ")")
			if op < 0 || cp < 0 {
				return fail(sl.line, "bad lemma head")
			}
			lm := &LemmaSpec{Pkg: pkg, Name: strings.TrimSpace(rest[:op]), Props: props, File: file, Line: sl.line}
			for _, p := range splitTop(rest[op+1:cp], ',') {
				p = strings.TrimSpace(p)
				if p == "" {
					continue
				}
				n, ty := splitWord(p)
				lm.Vars = append(lm.Vars, QVar{n, strings.TrimSpace(ty)})
			}
			// untyped names take the type of the next typed one (Go style)
			for i := len(lm.Vars) - 2; i >= 0; i-- {
				if lm.Vars[i].Type == "" {
					lm.Vars[i].Type = lm.Vars[i+1].Type
				}
			}
			ss.Lemmas = append(ss.Lemmas, lm)
			curF, curLoop, curLemma, curType = nil, nil, lm, nil
		case "type":
			ts := &TypeSpec{Pkg: pkg, Name: strings.TrimSpace(rest), Guarded: map[string][]string{}, LockInv: map[string][]Clause{}, Props: props}
			ss.Types[pkg+"."+ts.Name] = ts
			curF, curLoop, curLemma, curType = nil, nil, nil, ts
		case "callback":
			// callback Name: pure | modifies a, b
			c := strings.Index(rest, ":")
			if c < 0 {
				return fail(sl.line, "bad callback")
			}
			cb := &CallbackSpec{Pkg: pkg, Name: strings.TrimSpace(rest[:c]), Props: props}
			for _, part := range strings.Split(rest[c+1:], ";") {
				w, r := splitWord(strings.TrimSpace(part))
				switch w {
				case "pure":
					cb.Pure = true
				case "closed":
					cb.Closed = true
				case "value-or-error":
					cb.ValueOrError = true
				case "writes":
					// writes arg 1, arg 2
					for _, m := range strings.Split(r, ",") {
						f := strings.Fields(m)
						if len(f) == 2 && f[0] == "arg" {
							if n, err := strconv.Atoi(f[1]); err == nil {
								cb.Writes = append(cb.Writes, n)
							}
						}
					}
					cb.Modifies = append(cb.Modifies, "msgs")
				case "modifies":
					for _, m := range strings.Split(r, ",") {
						cb.Modifies = append(cb.Modifies, strings.TrimSpace(m))
					}
				}
			}
			ss.Callbacks[pkg+"."+cb.Name] = cb
		case "axiom":
			c := strings.Index(rest, ":")
			if c < 0 {
				return fail(sl.line, "bad axiom")
			}
			e, err := ParseExpr(rest[c+1:])
			if err != nil {
				return fail(sl.line, "axiom: %v", err)
			}
			ss.Axioms = append(ss.Axioms, &AxiomSpec{Pkg: pkg, Name: strings.TrimSpace(rest[:c]), E: e, Text: strings.TrimSpace(rest[c+1:]), Props: props})
		case "requires", "ensures", "invariant", "decreases", "assert", "trusts":
			mode := ""
			label := ""
			r := strings.TrimSpace(rest)
			for strings.HasPrefix(r, "[") {
				cl := strings.Index(r, "]")
				tag := r[1:cl]
				if tag == "SEQ" || tag == "INT" {
					mode = tag
				} else {
					label = tag
					if at := strings.Index(tag, "@"); at >= 0 && curF != nil {
						// [name@C01+C04]: this clause serves other properties than the section it stands in
						label = tag[:at]
						if curF.ClauseProps == nil {
							curF.ClauseProps = map[string][]string{}
						}
						for _, pp := range strings.Split(tag[at+1:], "+") {
							curF.ClauseProps[label] = append(curF.ClauseProps[label], pp)
							if !hasProp(curF.Props, pp) {
								curF.Props = append(append([]string(nil), curF.Props...), pp)
							}
						}
					}
				}
				r = strings.TrimSpace(r[cl+1:])
			}
			e, err := ParseExpr(r)
			if err != nil {
				return fail(sl.line, "%s: %v", word, err)
			}
			cl := Clause{Label: label, Text: r, E: e, Mode: mode, Line: sl.line}
			switch {
			case word == "invariant":
				if curLoop == nil {
					return fail(sl.line, "invariant outside loop")
				}
				curLoop.Invariants = append(curLoop.Invariants, cl)
			case word == "assert" && curLoop != nil:
				curLoop.Asserts = append(curLoop.Asserts, cl)
			case word == "decreases":
				if curLoop == nil {
					return fail(sl.line, "decreases outside loop")
				}
				c2 := cl
				curLoop.Decreases = &c2
			case curLemma != nil && word == "requires":
				curLemma.Requires = append(curLemma.Requires, cl)
			case curLemma != nil && word == "ensures":
				curLemma.Ensures = append(curLemma.Ensures, cl)
			case curF != nil && word == "requires":
				curF.Requires = append(curF.Requires, cl)
			case curF != nil && word == "ensures":
				curF.Ensures = append(curF.Ensures, cl)
			case curF != nil && word == "trusts":
				curF.Trusts = append(curF.Trusts, cl)
			default:
				return fail(sl.line, "%s without func/lemma", word)
			}
		case "loop":
			if curF == nil {
				return fail(sl.line, "loop outside func")
			}
			r := strings.TrimSuffix(strings.TrimSpace(rest), ":")
			ls := &LoopSpec{}
			if op := strings.Index(r, "("); op >= 0 {
				ls.CountName = strings.TrimSpace(strings.Trim(r[op:], "()"))
				r = strings.TrimSpace(r[:op])
			}
			n, err := strconv.Atoi(strings.TrimSpace(r))
			if err != nil {
				return fail(sl.line, "loop ordinal: %v", err)
			}
			ls.Ordinal = n
			curF.Loops[n] = ls
			curLoop = ls
		case "let", "letold":
			if curF == nil {
				return fail(sl.line, "let outside func")
			}
			c := strings.Index(rest, ":=")
			if c < 0 {
				return fail(sl.line, "bad let")
			}
			e, err := ParseExpr(rest[c+2:])
			if err != nil {
				return fail(sl.line, "let: %v", err)
			}
			curF.Lets = append(curF.Lets, LetSpec{Name: strings.TrimSpace(rest[:c]), E: e, Old: word == "letold"})
		case "unroll":
			if curLoop == nil {
				return fail(sl.line, "unroll outside loop")
			}
			n, err := strconv.Atoi(strings.TrimSpace(rest))
			if err != nil {
				return fail(sl.line, "unroll: %v", err)
			}
			curLoop.Unroll = n
		case "onsend":
			// onsend <channel variable> [label]: <expr over `sent` and the locals in scope at the send>
			if curF == nil {
				return fail(sl.line, "onsend outside func")
			}
			chName, r := splitWord(rest)
			label := ""
			r = strings.TrimSpace(r)
			if strings.HasPrefix(r, "[") {
				cl := strings.Index(r, "]")
				label = r[1:cl]
				if at := strings.Index(label, "@"); at >= 0 {
					// [name@C04+C16]: the step clause serves these properties
					tags := label[at+1:]
					label = label[:at]
					if curF.ClauseProps == nil {
						curF.ClauseProps = map[string][]string{}
					}
					for _, pp := range strings.Split(tags, "+") {
						curF.ClauseProps[label] = append(curF.ClauseProps[label], pp)
						if !hasProp(curF.Props, pp) {
							curF.Props = append(append([]string(nil), curF.Props...), pp)
						}
					}
				}
				r = strings.TrimSpace(r[cl+1:])
			}
			r = strings.TrimPrefix(r, ":")
			e, err := ParseExpr(r)
			if err != nil {
				return fail(sl.line, "onsend: %v", err)
			}
			curF.OnSend = append(curF.OnSend, SendClause{Chan: strings.TrimSuffix(chName, ":"), Clause: Clause{Label: label, Text: strings.TrimSpace(r), E: e, Line: sl.line}})
		case "onrecv":
			// onrecv <element type> : <expr over `recvd`> — ASSUMED of every value received from a channel of that element
			// type in this function (the sender's step contract guarantees it; listed as an assumption)
			if curF == nil {
				return fail(sl.line, "onrecv outside func")
			}
			tn, r := splitWord(rest)
			r = strings.TrimPrefix(strings.TrimSpace(r), ":")
			e, err := ParseExpr(r)
			if err != nil {
				return fail(sl.line, "onrecv: %v", err)
			}
			curF.OnRecv = append(curF.OnRecv, SendClause{Chan: strings.TrimSuffix(tn, ":"), Clause: Clause{Text: strings.TrimSpace(r), E: e, Line: sl.line}})
		case "ondelete", "onmapstore":
			// ondelete <map variable or Type.field> [SEQ|INT] [label]: <expr over `key` and the state just BEFORE the delete>
			if curF == nil {
				return fail(sl.line, "ondelete outside func")
			}
			mName, r := splitWord(rest)
			label, mode := "", ""
			r = strings.TrimSpace(r)
			for strings.HasPrefix(r, "[") {
				cl := strings.Index(r, "]")
				if t := r[1:cl]; t == "SEQ" || t == "INT" {
					mode = t
				} else {
					label = t
				}
				r = strings.TrimSpace(r[cl+1:])
			}
			r = strings.TrimPrefix(r, ":")
			e, err := ParseExpr(r)
			if err != nil {
				return fail(sl.line, "ondelete: %v", err)
			}
			sc := SendClause{Chan: strings.TrimSuffix(mName, ":"), Clause: Clause{Label: label, Mode: mode, Text: strings.TrimSpace(r), E: e, Line: sl.line}}
			if word == "ondelete" {
				curF.OnDelete = append(curF.OnDelete, sc)
			} else {
				curF.OnMapStore = append(curF.OnMapStore, sc)
			}
		case "inline":
			if curF != nil {
				curF.Inline = true
			}
		case "trusted":
			if curF != nil {
				curF.Trusted = true
			}
		case "noverify":
			if curF != nil {
				curF.NoVerify = true
			}
		case "mode":
			if curF != nil {
				curF.Mode = strings.TrimSpace(rest)
			}
		case "bounded":
			if curF != nil {
				curF.Bounded = strings.TrimSpace(rest)
			}
		case "option":
			if curF != nil {
				k, v := splitWord(rest)
				curF.Options[k] = strings.TrimSpace(v)
			}
		case "modifies":
			if curF == nil {
				return fail(sl.line, "modifies outside func")
			}
			curF.HasMod = true
			for _, m := range strings.Split(rest, ",") {
				m = strings.TrimSpace(m)
				if m != "" && m != "nothing" {
					curF.Modifies = append(curF.Modifies, m)
				}
			}
		case "preserves":
			if curF == nil {
				return fail(sl.line, "preserves outside func")
			}
			for _, m := range strings.Split(rest, ",") {
				if m = strings.TrimSpace(m); m != "" {
					curF.Preserves = append(curF.Preserves, m)
				}
			}
		case "track":
			if curF != nil {
				curF.Track = append(curF.Track, strings.Fields(rest)...)
			}
		case "replay":
			if curF == nil {
				return fail(sl.line, "replay outside func")
			}
			rs := &ReplaySpec{}
			r := strings.TrimSpace(rest)
			rlabel := ""
			if strings.HasPrefix(r, "[") {
				cl := strings.Index(r, "]")
				rlabel = r[1:cl]
				r = strings.TrimSpace(r[cl+1:])
			}
			if op := strings.Index(r, "("); op >= 0 {
				rs.Driver = strings.TrimSpace(r[:op])
				inner := r[op+1 : strings.LastIndex(r, ")")]
				for _, a := range splitTop(inner, ',') {
					a = strings.TrimSpace(a)
					if a == "" {
						continue
					}
					e, err := ParseExpr(a)
					if err != nil {
						return fail(sl.line, "replay arg: %v", err)
					}
					rs.Args = append(rs.Args, e)
					rs.Texts = append(rs.Texts, a)
				}
			} else {
				rs.Driver = r
			}
			if rlabel != "" {
				if curF.Replays == nil {
					curF.Replays = map[string]*ReplaySpec{}
				}
				curF.Replays[rlabel] = rs
			} else {
				curF.Replay = rs
			}
		case "guarded_by":
			if curType == nil {
				return fail(sl.line, "guarded_by outside type")
			}
			c := strings.Index(rest, ":")
			mu := strings.TrimSpace(rest[:c])
			for _, f := range strings.Split(rest[c+1:], ",") {
				curType.Guarded[mu] = append(curType.Guarded[mu], strings.TrimSpace(f))
			}
		case "lockinv":
			if curType == nil {
				return fail(sl.line, "lockinv outside type")
			}
			c := strings.Index(rest, ":")
			mu := strings.TrimSpace(rest[:c])
			e, err := ParseExpr(rest[c+1:])
			if err != nil {
				return fail(sl.line, "lockinv: %v", err)
			}
			curType.LockInv[mu] = append(curType.LockInv[mu], Clause{Text: strings.TrimSpace(rest[c+1:]), E: e, Line: sl.line})
		default:
			return fail(sl.line, "unknown directive %q", word)
		}
	}
	return nil
}

func splitWord(s string) (string, string) {
	s = strings.TrimSpace(s)
	for i, r := range s {
		if unicode.IsSpace(r) {
			return s[:i], strings.TrimSpace(s[i:])
		}
	}
	return s, ""
}

func splitParams(s string) []string {
	var out []string
	for _, p := range strings.Split(s, ",") {
		p = strings.TrimSpace(p)
		if p == "" {
			continue
		}
		w, _ := splitWord(p)
		out = append(out, w)
	}
	return out
}

func splitTop(s string, sep rune) []string {
	var out []string
	d := 0
	last := 0
	inStr := false
	for i, r := range s {
		switch {
		case r == '"':
			inStr = !inStr
		case inStr:
		case r == '(' || r == '[' || r == '{':
			d++
		case r == ')' || r == ']' || r == '}':
			d--
		case r == sep && d == 0:
			out = append(out, s[last:i])
			last = i + 1
		}
	}
	out = append(out, s[last:])
	return out
}

// parseFuncHead parses:  Name(p1, p2) (r1, r2)   |  (*T).Name(p) (r)   |  (T).Name(...)  | Outer$1(...)
func parseFuncHead(s string) (*FuncSpec, error) {
	s = strings.TrimSpace(s)
	fs := &FuncSpec{}
	var key string
	if strings.HasPrefix(s, "(") {
		cp := strings.Index(s, ")")
		key = s[:cp+1]
		s = s[cp+1:]
		if !strings.HasPrefix(s, ".") {
			return nil, fmt.Errorf("bad method head")
		}
	}
	op := strings.Index(s, "(")
	if op < 0 {
		return nil, fmt.Errorf("bad func head: %s", s)
	}
	key += strings.TrimSpace(s[:op])
	fs.Key = key
	cp := matchParen(s, op)
	fs.Params = splitParams(s[op+1 : cp])
	rest := strings.TrimSpace(s[cp+1:])
	if strings.HasPrefix(rest, "(") {
		fs.Results = splitParams(rest[1:matchParen(rest, 0)])
	}
	return fs, nil
}

func matchParen(s string, open int) int {
	d := 0
	for i := open; i < len(s); i++ {
		switch s[i] {
		case '(':
			d++
		case ')':
			d--
			if d == 0 {
				return i
			}
		}
	}
	return len(s) - 1
}

// ---------------- expression parser ----------------

type tok struct {
	kind string // id, int, str, op, eof
	s    string
}

type parser struct {
	toks []tok
	pos  int
}

func lex(s string) ([]tok, error) {
	var toks []tok
	i := 0
	for i < len(s) {
		c := s[i]
		switch {
		case c == ' ' || c == '\t':
			i++
		case unicode.IsLetter(rune(c)) || c == '_':
			j := i
			for j < len(s) && (unicode.IsLetter(rune(s[j])) || unicode.IsDigit(rune(s[j])) || s[j] == '_' || s[j] == '$') {
				j++
			}
			toks = append(toks, tok{"id", s[i:j]})
			i = j
		case c >= '0' && c <= '9':
			j := i
			for j < len(s) && ((s[j] >= '0' && s[j] <= '9') || s[j] == '_' || s[j] == 'x' || (s[j] >= 'a' && s[j] <= 'f') || (s[j] >= 'A' && s[j] <= 'F')) {
				j++
			}
			toks = append(toks, tok{"int", strings.ReplaceAll(s[i:j], "_", "")})
			i = j
		case c == '`':
			// `name`: an identifier that is a keyword of the contract language (a Go variable called exists, old, ...)
			j := i + 1
			for j < len(s) && s[j] != '`' {
				j++
			}
			if j >= len(s) {
				return nil, fmt.Errorf("unterminated `identifier`")
			}
			toks = append(toks, tok{"rawid", s[i+1 : j]})
			i = j + 1
		case c == '"':
			j := i + 1
			for j < len(s) && s[j] != '"' {
				if s[j] == '\\' {
					j++
				}
				j++
			}
			if j >= len(s) {
				return nil, fmt.Errorf("unterminated string")
			}
			v, err := strconv.Unquote(s[i : j+1])
			if err != nil {
				return nil, err
			}
			toks = append(toks, tok{"str", v})
			i = j + 1
		default:
			for _, op := range []string{"<==>", "==>", "::", "&&", "||", "==", "!=", "<=", ">=", "<<", ">>", ":="} {
				if strings.HasPrefix(s[i:], op) {
					toks = append(toks, tok{"op", op})
					i += len(op)
					goto next
				}
			}
			if strings.ContainsRune("+-*/%<>!()[]{}.,:?&|", rune(c)) {
				toks = append(toks, tok{"op", string(c)})
				i++
			} else {
				return nil, fmt.Errorf("unexpected character %q in %q", c, s)
			}
		next:
		}
	}
	toks = append(toks, tok{"eof", ""})
	return toks, nil
}

func ParseExpr(s string) (Expr, error) {
	toks, err := lex(s)
	if err != nil {
		return nil, err
	}
	p := &parser{toks: toks}
	var e Expr
	func() {
		defer func() {
			if r := recover(); r != nil {
				if pe, ok := r.(parseErr); ok {
					err = fmt.Errorf("%s in %q", string(pe), s)
					return
				}
				panic(r)
			}
		}()
		e = p.parseExpr()
		if p.peek().kind != "eof" {
			panic(parseErr(fmt.Sprintf("unexpected %q", p.peek().s)))
		}
	}()
	return e, err
}

type parseErr string

func (p *parser) peek() tok { return p.toks[p.pos] }
func (p *parser) next() tok { t := p.toks[p.pos]; p.pos++; return t }
func (p *parser) isOp(s string) bool {
	t := p.peek()
	return t.kind == "op" && t.s == s
}
func (p *parser) expect(s string) {
	t := p.next()
	if t.s != s {
		panic(parseErr(fmt.Sprintf("expected %q got %q", s, t.s)))
	}
}

// precedence (low to high): <==>, ==>, ?:, ||, &&, comparison, + -, * / %, unary, postfix
func (p *parser) parseExpr() Expr {
	t := p.peek()
	if t.kind == "id" && (t.s == "forall" || t.s == "exists") {
		return p.parseQuant()
	}
	return p.parseIff()
}

func (p *parser) parseQuant() Expr {
	t := p.next()
	q := &EQuant{Forall: t.s == "forall"}
	for {
		name := p.next()
		if name.kind != "id" {
			panic(parseErr("quantifier variable expected"))
		}
		ty := p.parseTypeText()
		q.Vars = append(q.Vars, QVar{name.s, ty})
		if p.isOp(",") {
			p.next()
			continue
		}
		break
	}
	for i := len(q.Vars) - 2; i >= 0; i-- {
		if q.Vars[i].Type == "" {
			q.Vars[i].Type = q.Vars[i+1].Type
		}
	}
	p.expect("::")
	q.Body = p.parseExpr()
	return q
}

// parseTypeText consumes a Go type and returns its text ("" if none follows).
func (p *parser) parseTypeText() string {
	var b strings.Builder
	for {
		t := p.peek()
		switch {
		case t.kind == "op" && (t.s == "*" || t.s == "[" || t.s == "]" || t.s == "."):
			b.WriteString(t.s)
			p.next()
		case t.kind == "id":
			if b.Len() > 0 {
				last := b.String()[b.Len()-1]
				if last != '*' && last != ']' && last != '.' && last != '[' {
					return b.String()
				}
			}
			b.WriteString(t.s)
			p.next()
		default:
			return b.String()
		}
	}
}

func (p *parser) parseIff() Expr {
	x := p.parseImpl()
	for p.isOp("<==>") {
		p.next()
		y := p.parseImpl()
		x = &EBinary{"<==>", x, y}
	}
	return x
}

func (p *parser) parseImpl() Expr {
	x := p.parseCond()
	if p.isOp("==>") {
		p.next()
		var y Expr
		if t := p.peek(); t.kind == "id" && (t.s == "forall" || t.s == "exists") {
			y = p.parseQuant()
		} else {
			y = p.parseImpl() // right associative
		}
		return &EBinary{"==>", x, y}
	}
	return x
}

func (p *parser) parseCond() Expr {
	c := p.parseOr()
	if p.isOp("?") {
		p.next()
		a := p.parseCond()
		p.expect(":")
		b := p.parseCond()
		return &ECond{c, a, b}
	}
	return c
}

func (p *parser) parseOr() Expr {
	x := p.parseAnd()
	for p.isOp("||") {
		p.next()
		x = &EBinary{"||", x, p.parseAnd()}
	}
	return x
}

func (p *parser) parseAnd() Expr {
	x := p.parseCmp()
	for p.isOp("&&") {
		p.next()
		var y Expr
		if t := p.peek(); t.kind == "id" && (t.s == "forall" || t.s == "exists") {
			y = p.parseQuant()
		} else {
			y = p.parseCmp()
		}
		x = &EBinary{"&&", x, y}
	}
	return x
}

func (p *parser) parseCmp() Expr {
	x := p.parseAdd()
	for {
		t := p.peek()
		if t.kind == "op" && (t.s == "==" || t.s == "!=" || t.s == "<" || t.s == "<=" || t.s == ">" || t.s == ">=") {
			p.next()
			y := p.parseAdd()
			x = &EBinary{t.s, x, y}
			continue
		}
		return x
	}
}

func (p *parser) parseAdd() Expr {
	x := p.parseMul()
	for p.isOp("+") || p.isOp("-") {
		op := p.next().s
		x = &EBinary{op, x, p.parseMul()}
	}
	return x
}

func (p *parser) parseMul() Expr {
	x := p.parseUnary()
	for p.isOp("*") || p.isOp("/") || p.isOp("%") || p.isOp("<<") {
		op := p.next().s
		x = &EBinary{op, x, p.parseUnary()}
	}
	return x
}

func (p *parser) parseUnary() Expr {
	if p.isOp("!") || p.isOp("-") {
		op := p.next().s
		return &EUnary{op, p.parseUnary()}
	}
	if p.isOp("*") {
		// a type expression like *below as call argument
		save := p.pos
		ty := p.parseTypeText()
		if ty != "" {
			return &EType{ty}
		}
		p.pos = save
	}
	return p.parsePostfix()
}

func (p *parser) parsePostfix() Expr {
	x := p.parsePrimary()
	for {
		switch {
		case p.isOp("."):
			p.next()
			if p.isOp("(") {
				// type assertion x.(T): value projection
				p.next()
				ty := p.parseTypeText()
				p.expect(")")
				x = &ECall{Fun: "cast", Args: []Expr{x, &EType{ty}}}
				continue
			}
			n := p.next()
			if n.kind != "id" {
				panic(parseErr("selector expected"))
			}
			x = &ESel{x, n.s}
		case p.isOp("["):
			p.next()
			if p.isOp(":") {
				p.next()
				var hi Expr
				if !p.isOp("]") {
					hi = p.parseExpr()
				}
				p.expect("]")
				x = &ESlice{x, nil, hi}
				continue
			}
			i := p.parseExpr()
			if p.isOp(":") {
				p.next()
				var hi Expr
				if !p.isOp("]") {
					hi = p.parseExpr()
				}
				p.expect("]")
				x = &ESlice{x, i, hi}
				continue
			}
			p.expect("]")
			x = &EIndex{x, i}
		case p.isOp("("):
			// call: only on identifiers / pkg.Name
			name := calleeName(x)
			var recvExpr Expr
			if name == "" {
				sel, ok := x.(*ESel)
				if !ok {
					panic(parseErr("call of non-name"))
				}
				name, recvExpr = sel.Name, sel.X
			}
			p.next()
			var args []Expr
			for !p.isOp(")") {
				if p.isOp("*") || p.isOp("[") {
					save := p.pos
					ty := p.parseTypeText()
					if ty != "" && (p.isOp(",") || p.isOp(")")) {
						args = append(args, &EType{ty})
					} else {
						p.pos = save
						args = append(args, p.parseExpr())
					}
				} else {
					args = append(args, p.parseExpr())
				}
				if p.isOp(",") {
					p.next()
				}
			}
			p.expect(")")
			x = &ECall{Fun: name, Args: args, Recv: recvExpr}
		default:
			return x
		}
	}
}

func calleeName(x Expr) string {
	switch v := x.(type) {
	case *EIdent:
		return v.Name
	case *ESel:
		if b := calleeName(v.X); b != "" {
			return b + "." + v.Name
		}
	}
	return ""
}

func (p *parser) parsePrimary() Expr {
	t := p.next()
	switch t.kind {
	case "int":
		return &EInt{t.s}
	case "str":
		return &EStr{t.s}
	case "rawid":
		return &EIdent{t.s}
	case "id":
		switch t.s {
		case "true":
			return &EBool{true}
		case "false":
			return &EBool{false}
		case "nil":
			return &ENil{}
		case "forall", "exists":
			p.pos--
			return p.parseQuant()
		}
		return &EIdent{t.s}
	case "op":
		if t.s == "(" {
			e := p.parseExpr()
			p.expect(")")
			return e
		}
	}
	panic(parseErr(fmt.Sprintf("unexpected token %q", t.s)))
}
