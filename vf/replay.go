package main

// Counterexample replay on the real code.
//
// A contract names a replay driver and the spec expressions whose values in the counter-model parameterise it:
//     //@ replay CompareAscending(t1.Seconds, t1.Nanos, t2.Seconds, t2.Nanos)
// The driver is a Go test template (/verif/replay/drivers/<Name>.go.tmpl) that is instantiated with the model
// values and injected into the real package with `go test -overlay` (nothing is written to /repo).  The test
// calls the real function and checks the property's clause in Go; a failing test = violation reproduced.

import (
	"go/types"
	"sort"

	"golang.org/x/tools/go/ssa"

	"bytes"
	"context"
	"encoding/json"
	"fmt"
	"os"
	"os/exec"
	"path/filepath"
	"regexp"
	"strings"
	"text/template"
	"time"
)

type replayOutcome struct {
	path       string
	reproduced bool
	note       string
}

type replayFile struct {
	Property     string            `json:"property"`
	Obligation   string            `json:"obligation"`
	Desc         string            `json:"desc"`
	Pos          string            `json:"pos"`
	Status       string            `json:"status"`
	SolverRuns   []string          `json:"solver_runs"`
	SolverOutput string            `json:"solver_output"`
	Model        map[string]string `json:"model,omitempty"`
	Driver       string            `json:"driver,omitempty"`
	Args         []string          `json:"args,omitempty"`
	ArgExprs     []string          `json:"arg_exprs,omitempty"`
	PkgDir       string            `json:"pkg_dir,omitempty"`
	TestSource   string            `json:"test_source,omitempty"`
	TestOutput   string            `json:"test_output,omitempty"`
	Reproduced   bool              `json:"reproduced"`
	Note         string            `json:"note,omitempty"`
}

var pkgDirRe = regexp.MustCompile(`(?m)^//vf:pkg\s+(\S+)`)

func tryReplay(eng *Engine, rep *FnReport, o *Obligation, r *Result, pid string) replayOutcome {
	rf := &replayFile{Property: pid, Obligation: o.Name, Desc: o.Desc, Pos: o.Pos, Status: r.Status, SolverRuns: r.Tried, SolverOutput: trunc(r.Output, 6000), Model: r.Model}
	out := replayOutcome{note: "no counter-model"}
	if o.Replay != nil && o.Replay.Driver == "" {
		o.Replay = nil
	}
	if o.Replay != nil && len(o.Replay.Args) == 0 {
		// a driver without parameters: a fixed scenario that exercises the failed clause on the real code
		rf.Driver = o.Replay.Driver
		runDriver(eng.root, rf)
		out.reproduced = rf.Reproduced
		out.note = rf.Note
	} else if o.Replay != nil && r.Model != nil && len(o.GetVals) > 0 {
		rf.Driver = o.Replay.Driver
		rf.ArgExprs = o.Replay.Texts
		ok := true
		for _, t := range o.GetVals {
			v, has := r.Model[strings.Trim(t, "|")]
			if !has {
				ok = false
				break
			}
			rf.Args = append(rf.Args, v)
		}
		if ok {
			runDriver(eng.root, rf)
			out.reproduced = rf.Reproduced
			out.note = rf.Note
		} else {
			rf.Note = "model does not give all driver arguments"
			out.note = rf.Note
		}
	} else if o.Replay == nil {
		rf.Note = "no replay driver for this contract"
		out.note = rf.Note
	}
	dir := filepath.Join(outRoot(), "replays", pid)
	os.MkdirAll(dir, 0o755)
	p := filepath.Join(dir, sanitize(o.Name)+".json")
	data, _ := json.MarshalIndent(rf, "", " ")
	os.WriteFile(p, data, 0o644)
	out.path = p
	return out
}

// goLit converts an SMT model value into a Go literal.
func goLit(v string) string {
	v = strings.TrimSpace(v)
	switch v {
	case "true", "false":
		return v
	}
	if strings.HasPrefix(v, "-") {
		return "(" + v + ")"
	}
	return v
}

func runDriver(root string, rf *replayFile) {
	tmplPath := filepath.Join(verifRoot, "replay", "drivers", rf.Driver+".go.tmpl")
	src, err := os.ReadFile(tmplPath)
	if err != nil {
		rf.Note = "driver template missing: " + tmplPath
		return
	}
	m := pkgDirRe.FindSubmatch(src)
	if m == nil {
		rf.Note = "driver has no //vf:pkg line"
		return
	}
	rf.PkgDir = string(m[1])
	funcs := template.FuncMap{"lit": goLit}
	t, err := template.New("d").Funcs(funcs).Parse(string(src))
	if err != nil {
		rf.Note = "driver template: " + err.Error()
		return
	}
	var buf bytes.Buffer
	var lits []string
	for _, a := range rf.Args {
		lits = append(lits, goLit(a))
	}
	if err := t.Execute(&buf, map[string]any{"V": lits, "Raw": rf.Args, "Obligation": rf.Obligation}); err != nil {
		rf.Note = "driver template: " + err.Error()
		return
	}
	rf.TestSource = buf.String()
	runReplayTest(root, rf)
}

func runReplayTest(root string, rf *replayFile) {
	tmp, err := os.MkdirTemp("", "vf-replay-")
	if err != nil {
		rf.Note = err.Error()
		return
	}
	defer os.RemoveAll(tmp)
	testFile := filepath.Join(tmp, "vf_replay_test.go")
	os.WriteFile(testFile, []byte(rf.TestSource), 0o644)
	ov := map[string]any{"Replace": map[string]string{filepath.Join(root, rf.PkgDir, "vf_replay_test.go"): testFile}}
	ovData, _ := json.Marshal(ov)
	ovFile := filepath.Join(tmp, "ov.json")
	os.WriteFile(ovFile, ovData, 0o644)
	ctx, cancel := context.WithTimeout(context.Background(), 180*time.Second)
	defer cancel()
	args := []string{"test", "-overlay", ovFile, "-vet=off", "-count=1", "-timeout", "60s", "-run", "^TestVFReplay$"}
	if strings.Contains(rf.TestSource, "//vf:hooks") {
		args = append(args, "-tags=verif") // the driver forces a schedule through the verif-tagged yield points
	}
	if strings.Contains(rf.TestSource, "//vf:race") {
		args = append(args, "-race")
	}
	args = append(args, "./"+rf.PkgDir+"/")
	cmd := exec.CommandContext(ctx, "go", args...)
	cmd.Dir = root
	cmd.Env = append(os.Environ(), "GOFLAGS=-mod=mod", "GOPROXY=off", "GOSUMDB=off", "GOTOOLCHAIN=local")
	var ob bytes.Buffer
	cmd.Stdout = &ob
	cmd.Stderr = &ob
	runErr := cmd.Run()
	rf.TestOutput = trunc(ob.String(), 6000)
	switch {
	case runErr == nil:
		rf.Reproduced = false
		rf.Note = "replay test passed on the real code: counter-model not reproduced (candidate model was spurious or outside the driver's reach)"
	case strings.Contains(ob.String(), "--- FAIL") || strings.Contains(ob.String(), "panic:"):
		rf.Reproduced = true
		rf.Note = "reproduced on the real code"
	default:
		rf.Reproduced = false
		rf.Note = "replay test did not run: " + firstLine(ob.String())
	}
}

func firstLine(s string) string {
	s = strings.TrimSpace(s)
	if k := strings.Index(s, "\n"); k >= 0 {
		return s[:k]
	}
	return s
}

// vf replay <file>: re-run a recorded replay against the current tree.
func cmdReplay(args []string) int {
	if len(args) == 0 {
		fmt.Fprintln(os.Stderr, "usage: vf replay <replay file>")
		return 2
	}
	data, err := os.ReadFile(args[0])
	if err != nil {
		fmt.Fprintln(os.Stderr, err)
		return 2
	}
	var rf replayFile
	if err := json.Unmarshal(data, &rf); err != nil {
		fmt.Fprintln(os.Stderr, err)
		return 2
	}
	fmt.Printf("obligation: %s\n%s\nsolver: %v\n", rf.Obligation, rf.Desc, rf.SolverRuns)
	if rf.TestSource == "" {
		fmt.Println("no failing input recorded (no-failing-input-found); solver output:")
		fmt.Println(rf.SolverOutput)
		return 1
	}
	runReplayTest(repoRoot(), &rf)
	fmt.Println(rf.TestOutput)
	fmt.Println(rf.Note)
	if rf.Reproduced {
		return 1
	}
	return 0
}

// extraChecks: the guarded-by sweep.  Every function of the module that touches a field declared guarded_by (in a type
// spec tagged with this property) and has no contract of its own for the property is verified with an empty contract;
// only its lock-discipline obligations count.  So a new, unannotated accessor is checked, not missed.
func (e *Engine) extraChecks(pid string, kf *KnownFindings, only string) []*FnReport {
	guarded := map[string]map[string]bool{} // type key -> field names
	for _, ts := range e.specs.Types {
		if !hasProp(ts.Props, pid) {
			continue
		}
		t := e.resolveType(ts.Pkg, ts.Name)
		if t == nil {
			continue
		}
		fs := map[string]bool{}
		for _, fields := range ts.Guarded {
			for _, f := range fields {
				if !strings.Contains(f, ".") {
					fs[f] = true
				}
			}
		}
		guarded[typeKey(t)] = fs
	}
	if len(guarded) == 0 {
		return nil
	}
	var out []*FnReport
	var keys []string
	for k := range e.funcByKey {
		keys = append(keys, k)
	}
	sort.Strings(keys)
	for _, k := range keys {
		fn := e.funcByKey[k]
		if fn.Parent() != nil || len(fn.Blocks) == 0 || fn.Synthetic != "" {
			continue // closures are checked where the module calls them (inlined into their callers)
		}
		if only != "" && !strings.Contains(k, only) {
			continue
		}
		if sp := e.specs.Funcs[k]; sp != nil && hasProp(sp.Props, pid) {
			continue
		}
		if !touchesGuarded(fn, guarded) {
			continue
		}
		spec := &FuncSpec{Pkg: e.funcPkgPath(fn), Key: funcKey(fn), Props: []string{pid}, Loops: map[int]*LoopSpec{}, Asserts: map[string][]Clause{}, Options: map[string]string{"sweep": "guard"}}
		if sp := e.specs.Funcs[k]; sp != nil {
			// reuse loop annotations and preconditions of an existing contract for another property
			c2 := *sp
			c2.Props = []string{pid}
			c2.Options = map[string]string{"sweep": "guard"}
			for kk, vv := range sp.Options {
				c2.Options[kk] = vv
			}
			spec = &c2
		}
		rep := e.VerifyFunc(spec, "SEQ", kf)
		var keep []*Obligation
		for _, o := range rep.Obs {
			if o.Kind == "guard" || o.Kind == "lock" {
				keep = append(keep, o)
			}
		}
		rep.Obs = keep
		out = append(out, rep)
	}
	return out
}

func touchesGuarded(fn *ssa.Function, guarded map[string]map[string]bool) bool {
	var visit func(f *ssa.Function) bool
	visit = func(f *ssa.Function) bool {
		for _, b := range f.Blocks {
			for _, ins := range b.Instrs {
				if fa, ok := ins.(*ssa.FieldAddr); ok {
					pt := fa.X.Type().Underlying().(*types.Pointer).Elem()
					if fs, ok := guarded[typeKey(pt)]; ok {
						if fs[pt.Underlying().(*types.Struct).Field(fa.Field).Name()] {
							return true
						}
					}
				}
			}
		}
		for _, an := range f.AnonFuncs {
			if visit(an) {
				return true
			}
		}
		return false
	}
	return visit(fn)
}
