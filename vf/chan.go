package main

// Channels as ghost sequences.
//
//   recvd[ch]  number of values received so far          total[ch]  number of values the channel delivers before it
//   seq[ch][k] the k-th value received (arbitrary)                   is closed/exhausted (arbitrary, >= 0)
//   sent[ch]   number of sends performed by the verified code; sentseq[ch][k] the k-th value sent
//   closed[ch] the verified code closed the channel;      cap[ch]    buffer capacity
//
// Blocking is not modelled: a receive on an exhausted channel yields (zero, false); `select` picks any case.

import (
	"fmt"
	"go/token"
	"go/types"
	"strings"

	"golang.org/x/tools/go/ssa"
)

func (c *FnCtx) chRecvd() string  { return c.comp("ghost$chan$recvd", "(Array Int Int)") }
func (c *FnCtx) chTotal() string  { return c.comp("ghost$chan$total", "(Array Int Int)") }
func (c *FnCtx) chCap() string    { return c.comp("ghost$chan$cap", "(Array Int Int)") }
func (c *FnCtx) chClosed() string { return c.comp("ghost$chan$closed", "(Array Int Bool)") }
func (c *FnCtx) chSent() string   { return c.comp("ghost$chan$sent", "(Array Int Int)") }
func (c *FnCtx) chSeq(elem types.Type) string {
	return c.comp("ghost$chanseq$"+shortTypeName(elem), "(Array Int (Array Int "+c.ty.SortOf(elem)+"))", elem)
}
func (c *FnCtx) chSentSeq(elem types.Type) string {
	return c.comp("ghost$chansent$"+shortTypeName(elem), "(Array Int (Array Int "+c.ty.SortOf(elem)+"))", elem)
}

func chanElem(t types.Type) types.Type { return t.Underlying().(*types.Chan).Elem() }

func (c *FnCtx) chanInit(st *State, ref string, size string) {
	for _, h := range []string{c.chRecvd(), c.chSent()} {
		c.heapSet(st, h, "(store "+c.heapGet(st, h)+" "+ref+" 0)")
	}
	c.heapSet(st, c.chCap(), "(store "+c.heapGet(st, c.chCap())+" "+ref+" "+size+")")
	c.heapSet(st, c.chClosed(), "(store "+c.heapGet(st, c.chClosed())+" "+ref+" false)")
	c.assume(st, "(>= (select "+c.heapGet(st, c.chTotal())+" "+ref+") 0)")
}

func (c *FnCtx) chanRecvCore(st *State, ch Val) (v Val, ok string) {
	elem := chanElem(ch.T)
	R, T, S := c.heapGet(st, c.chRecvd()), c.heapGet(st, c.chTotal()), c.heapGet(st, c.chSeq(elem))
	n := c.sc.Define("rn", sInt, "(select "+R+" "+ch.E+")")
	ok = c.sc.Define("rok", sBool, "(< "+n+" (select "+T+" "+ch.E+"))")
	val := c.sc.Define("rv", c.ty.SortOf(elem), Ite(ok, "(select (select "+S+" "+ch.E+") "+n+")", c.ty.Zero(elem)))
	c.assume(st, "(>= "+n+" 0)")
	c.assumeLoaded(st, elem, val)
	c.heapSet(st, c.chRecvd(), "(store "+R+" "+ch.E+" "+Ite(ok, "(+ "+n+" 1)", n)+")")
	return Val{T: elem, E: val}, ok
}

func (c *FnCtx) chanRecv(fr *Frame, st *State, ch Val, commaOk bool, t types.Type, pos token.Pos) Val {
	v, ok := c.chanRecvCore(st, ch)
	c.eng.onChanRecv(c, fr, st, ch, v, ok, pos)
	if commaOk {
		return Val{T: t, Tuple: []Val{v, {T: tBool, E: ok}}}
	}
	return v
}

func (c *FnCtx) chanSendCore(st *State, ch, v Val, pos token.Pos) {
	elem := chanElem(ch.T)
	if v.E == "" && v.Loc != nil {
		v.E = c.ptrTerm(v)
	}
	o := c.obligation(st, "safe", "sendclosed", Not("(select "+c.heapGet(st, c.chClosed())+" "+ch.E+")"), pos)
	o.Desc = "send on closed channel"
	N, S := c.heapGet(st, c.chSent()), c.heapGet(st, c.chSentSeq(elem))
	n := "(select " + N + " " + ch.E + ")"
	c.heapSet(st, c.chSentSeq(elem), "(store "+S+" "+ch.E+" (store (select "+S+" "+ch.E+") "+n+" "+v.E+"))")
	c.heapSet(st, c.chSent(), "(store "+N+" "+ch.E+" (+ "+n+" 1))")
}

func (c *FnCtx) chanSend(fr *Frame, st *State, ch, v Val, pos token.Pos) {
	c.eng.onChanSend(c, fr, st, ch, v, pos) // step contracts see the state just before the send
	c.chanSendCore(st, ch, v, pos)
}

func (c *FnCtx) chanClose(fr *Frame, st *State, ch Val, pos token.Pos) {
	o := c.obligation(st, "safe", "closenil", "(not (= "+ch.E+" 0))", pos)
	o.Desc = "close of nil channel"
	C := c.heapGet(st, c.chClosed())
	o2 := c.obligation(st, "safe", "closeclosed", Not("(select "+C+" "+ch.E+")"), pos)
	o2.Desc = "close of closed channel"
	c.heapSet(st, c.chClosed(), "(store "+C+" "+ch.E+" true)")
	c.eng.onChanClose(c, fr, st, ch, pos)
}

// select: any case may be chosen (readiness is not modelled); with a default, the default may be chosen too.
func (c *FnCtx) execSelect(fr *Frame, st *State, i *ssa.Select) {
	n := len(i.States)
	idx := c.sc.Fresh("selidx", sInt)
	lo := "0"
	if !i.Blocking {
		lo = "(- 1)"
	}
	c.sc.Assume(fmt.Sprintf("(and (<= %s %s) (< %s %d))", lo, idx, idx, n))
	tup := []Val{{T: tInt, E: idx}, {T: tBool, E: "false"}}
	var recvOk []string
	for k, s := range i.States {
		ch := c.val(fr, s.Chan)
		cond := fmt.Sprintf("(= %s %d)", idx, k)
		// an operation on a nil channel is never ready: that case is never the one chosen
		c.assume(st, "(=> "+cond+" (not (= "+ch.E+" 0)))")
		if s.Dir == types.SendOnly {
			v := c.val(fr, s.Send)
			c.guarded(st, cond, func(gs *State) { c.chanSend(fr, gs, ch, v, s.Pos) })
			continue
		}
		var rv Val
		var ok string
		c.guarded(st, cond, func(gs *State) {
			rv, ok = c.chanRecvCore(gs, ch)
			c.eng.onChanRecv(c, fr, gs, ch, rv, ok, s.Pos)
		})
		recvOk = append(recvOk, And(cond, ok))
		tup = append(tup, rv)
	}
	tup[1] = Val{T: tBool, E: c.sc.Define("selok", sBool, Or(recvOk...))}
	fr.vals[i] = Val{T: i.Type(), Tuple: tup}
}

// onChanRecv: `onrecv T: expr` clauses are assumed of every value received from a channel whose element type is T.
func (e *Engine) onChanRecv(c *FnCtx, fr *Frame, st *State, ch, v Val, ok string, pos token.Pos) {
	spec := c.specFor(fr)
	if spec == nil || len(spec.OnRecv) == 0 || c.sc.pure {
		return
	}
	for _, rc := range spec.OnRecv {
		bare := func(n string) string {
			star := strings.HasPrefix(n, "*")
			n = strings.TrimPrefix(n, "*")
			if k := strings.LastIndex(n, "."); k >= 0 {
				n = n[k+1:]
			}
			if star {
				return "*" + n
			}
			return n
		}
		if bare(shortTypeName(v.T)) != bare(rc.Chan) {
			continue
		}
		env := c.newEnv(fr, st, fr.entry)
		env.anyDef = true
		env.names["recvd"] = v
		c.assume(st, Implies(ok, c.evalBool(env, rc.E)))
		c.assumed["received values satisfy (guaranteed by the sender's step contract): "+rc.Chan+": "+rc.Text] = true
	}
}

// onChanSend: step contracts (`onsend ch: expr`) of the verified function are obligations at each send on that channel.
func (e *Engine) onChanSend(c *FnCtx, fr *Frame, st *State, ch, v Val, pos token.Pos) {
	spec := c.specFor(fr)
	if spec == nil || len(spec.OnSend) == 0 || c.sc.pure {
		return
	}
	// innermost loop containing the send (so that loop-carried names denote their value at the start of the iteration)
	var li *loopInfo
	if blk := c.curBlock; blk != nil {
		for _, l := range fr.loops {
			if l.body[blk] && (li == nil || len(l.body) < len(li.body)) {
				li = l
			}
		}
	}
	for k, sc := range spec.OnSend {
		env := c.newEnv(fr, st, fr.entry)
		env.loop = li
		env.anyDef = true
		chv, ok := c.tryLookup(env, sc.Chan)
		if !ok || chv.E != ch.E {
			continue
		}
		env.names["sent"] = v
		var g string
		if imp, ok := sc.E.(*EBinary); ok && imp.Op == "==>" {
			// a guarded clause may mention locals that do not exist yet at this send (e.g. the received event at the
			// seed send): there it can only hold because its guard is false
			ante := c.evalBool(env, imp.X)
			if cons, ok := c.tryEvalBool(env, imp.Y); ok {
				g = Implies(ante, cons)
			} else {
				g = Not(ante)
			}
		} else {
			g = c.evalBool(env, sc.E)
		}
		o := c.obligation(st, "step", "send."+sc.Chan+"."+clauseName(sc.Clause, k), g, pos)
		o.Desc = "every value sent on " + sc.Chan + " satisfies: " + sc.Text
	}
}
func (e *Engine) onChanClose(c *FnCtx, fr *Frame, st *State, ch Val, pos token.Pos) {}

// spec-level access to channel ghost state
func (c *FnCtx) evalChanSpec(env *Env, x *ECall) (Val, bool) {
	arg := func(i int) Val { return c.eval(env, x.Args[i]) }
	sel := func(h string, ch Val, t types.Type) Val {
		return Val{T: t, E: "(select " + c.heapGet(env.st, h) + " " + ch.E + ")"}
	}
	switch x.Fun {
	case "chanRecvd":
		return sel(c.chRecvd(), arg(0), tMath), true
	case "chanTotal":
		return sel(c.chTotal(), arg(0), tMath), true
	case "chanCap":
		return sel(c.chCap(), arg(0), tMath), true
	case "chanSent":
		return sel(c.chSent(), arg(0), tMath), true
	case "chanClosed":
		return sel(c.chClosed(), arg(0), tBool), true
	case "chanSeq":
		ch := arg(0)
		elem := chanElem(ch.T)
		return Val{T: elem, E: "(select (select " + c.heapGet(env.st, c.chSeq(elem)) + " " + ch.E + ") " + arg(1).E + ")"}, true
	case "chanSentAt":
		ch := arg(0)
		elem := chanElem(ch.T)
		return Val{T: elem, E: "(select (select " + c.heapGet(env.st, c.chSentSeq(elem)) + " " + ch.E + ") " + arg(1).E + ")"}, true
	}
	return Val{}, false
}
