package main

// Ghost state hooks (ownership, locks, call log), library contracts (prelude) and channel semantics.

import (
	"fmt"
	"go/token"
	"go/types"
	"strconv"
	"strings"

	"golang.org/x/tools/go/ssa"
)

type Ghost struct {
	e *Engine
}

func newGhost(e *Engine) *Ghost { return &Ghost{e: e} }

// globalFact: what is known about the value of an init-only global from its initialiser.
func (g *Ghost) globalFact(c *FnCtx, gl *ssa.Global, term string) string {
	info := g.e.constGlob[gl]
	if info == nil || info.value == nil {
		return ""
	}
	switch v := info.value.(type) {
	case *ssa.Function:
		return fmt.Sprintf("(and (> %s 0) (= %s %d))", term, c.cloFn(term), g.e.fnID(v))
	case *ssa.MakeClosure:
		if len(v.Bindings) == 0 {
			return fmt.Sprintf("(and (> %s 0) (= %s %d))", term, c.cloFn(term), g.e.fnID(v.Fn.(*ssa.Function)))
		}
	case *ssa.ChangeType:
		if f, ok := v.X.(*ssa.Function); ok {
			return fmt.Sprintf("(and (> %s 0) (= %s %d))", term, c.cloFn(term), g.e.fnID(f))
		}
	case *ssa.Call:
		// package-level error values: var ErrX = status.Error(codes.Y, "...") / errors.New("...")
		if callee := v.Call.StaticCallee(); callee != nil {
			switch fullName(callee) {
			case "errors.New", "fmt.Errorf":
				return "(not (= (i-tag " + term + ") 0))"
			case "google.golang.org/grpc/status.Error", "google.golang.org/grpc/status.Errorf":
				if cst, ok := v.Call.Args[0].(*ssa.Const); ok && cst.Value != nil {
					code := c.ty.ConstTerm(cst.Type(), cst.Value)
					c.sc.Decl("errcode", "(declare-fun |errcode| (Iface) Int)")
					if code != "0" {
						return "(and (not (= (i-tag " + term + ") 0)) (= (|errcode| " + term + ") " + code + "))"
					}
				}
			}
		}
	}
	return ""
}

// ---- hooks called by the executor (no-ops unless a ghost discipline is active) ----

func (e *Engine) onStore(c *FnCtx, st *State, l *Loc, v Val, pos token.Pos) {
	c.guardStore(st, l, pos)
	c.guardElem(st, l, true, pos)
	if l.Kind == locField && isMessageStruct(l.RootT) {
		if derefMsgType(v.T) != nil || c.ty.SortOf(v.T) == sIface || c.ty.SortOf(v.T) == sSlice {
			c.grafts = append(c.grafts, l.Ref) // an existing (sub-)message/list may have been grafted into this object
		}
		if _, ok := e.comps[msgComp]; ok {
			st.heap[msgComp] = c.sc.Fresh(msgComp+"$store", e.comps[msgComp])
		}
	}
}
func (e *Engine) onLoad(c *FnCtx, st *State, l *Loc, pos token.Pos)     { c.guardElem(st, l, false, pos) }
func (e *Engine) onAlloc(c *FnCtx, st *State, ref string, t types.Type) {}
func (e *Engine) onMapRead(c *FnCtx, st *State, m string, pos token.Pos) {
	if mu, ok := c.guardOf[m]; ok {
		o := c.obligation(st, "guard", "R.map", "(not (= "+c.lockState(st, mu)+" 0))", pos)
		o.Desc = "read of a map that is protected by a mutex without holding it"
	}
}

func (e *Engine) onMapWrite(c *FnCtx, st *State, m string, pos token.Pos) {
	if mu, ok := c.guardOf[m]; ok {
		o := c.obligation(st, "guard", "W.map", "(= "+c.lockState(st, mu)+" (- 1))", pos)
		o.Desc = "write to a map that is protected by a mutex without holding it for writing"
	}
}
func (e *Engine) onSliceWrite(c *FnCtx, st *State, s Val, cond string, pos token.Pos) {
	if mu, ok := c.guardOf["(s-arr "+s.E+")"]; ok {
		o := c.obligation(st, "guard", "W.elem", Implies(cond, Or("(>= (s-arr "+s.E+") |alloc0|)", "(= "+c.lockState(st, mu)+" (- 1))")), pos)
		o.Desc = "in-place write (append/copy/sort) into a slice that is protected by a mutex without holding it for writing"
	}
}
func (e *Engine) onOpaqueCall(c *FnCtx, st *State, name string, args []Val, pos token.Pos) {}
func (e *Engine) onCallback(c *FnCtx, st *State, cb *CallbackSpec, fv Val, args []Val, pos token.Pos) {
	h := c.cbCallsComp()
	c.heapSet(st, h, "(+ "+c.heapGet(st, h)+" 1)")
}

func (e *Engine) onGo(c *FnCtx, fr *Frame, st *State, i *ssa.Go) {
	// the spawned function runs concurrently: it is verified as a function of its own; here the spawn is a
	// ghost event and everything it may touch later is not tracked (interleaving is outside the subset).
	c.assumed["goroutine spawn: body verified separately, interleaving not modelled"] = true
}

func (e *Engine) evalGhostCall(c *FnCtx, env *Env, x *ECall) (Val, bool) {
	if v, ok := c.evalChanSpec(env, x); ok {
		return v, true
	}
	switch x.Fun {
	case "lastcall":
		// lastcall(callee[, k]): the (k-th) result of the most recent call of the named tracked callee.  The results live in
		// call-log components (ghost$res$callee$k), like the arguments: they merge at joins, are forgotten at the head of a loop
		// that makes such calls, and are what a contracted callee's postconditions about its own tracked calls constrain.
		name := x.Args[0].(*EIdent).Name
		if _, ok := c.trackArgT["ghost$res$"+name+"$0"]; !ok && !c.isTrackedName(name) {
			// an untracked callee: the value the latest call on this path returned (no call-log components exist for it)
			if v, ok := c.lastCall[name]; ok {
				if len(x.Args) > 1 {
					k, _ := strconv.Atoi(x.Args[1].(*EInt).V)
					if k >= len(v.Tuple) {
						panic(specError("lastcall(" + name + "," + x.Args[1].(*EInt).V + "): no such result"))
					}
					return v.Tuple[k], true
				}
				return v, true
			}
			panic(specError("lastcall(" + name + "): no such call on this path"))
		}
		if _, ok := c.trackArgT["ghost$res$"+name+"$0"]; !ok {
			// no call seen so far: type the components from the calls in the code, else from the module's function of that
			// name; the value is whatever the entry state holds (nothing is known about it)
			rs := c.trackResT[name]
			if rs == nil {
				fn := c.eng.trackedSig(name)
				if fn == nil {
					panic(specError("lastcall(" + name + "): no such call on this path"))
				}
				rs = fn.Signature.Results()
			}
			for k := 0; k < rs.Len(); k++ {
				comp := fmt.Sprintf("ghost$res$%s$%d", name, k)
				c.comp(comp, c.ty.SortOf(rs.At(k).Type()), rs.At(k).Type())
				c.trackArgT[comp] = rs.At(k).Type()
			}
		}
		get := func(k int) (Val, bool) {
			comp := fmt.Sprintf("ghost$res$%s$%d", name, k)
			t, ok := c.trackArgT[comp]
			if !ok {
				return Val{}, false
			}
			v := Val{T: t, E: c.heapGet(env.st, comp)}
			// closure identity / freshness facts known for the value as returned, when this is still that very value
			if prev, ok := c.lastCall[name]; ok {
				pv := prev
				if len(prev.Tuple) > k {
					pv = prev.Tuple[k]
				} else if len(prev.Tuple) > 0 {
					return v, true
				}
				if pv.E == v.E {
					pv.T = t
					return pv, true
				}
			}
			return v, true
		}
		if len(x.Args) > 1 {
			k, _ := strconv.Atoi(x.Args[1].(*EInt).V)
			v, ok := get(k)
			if !ok {
				panic(specError("lastcall(" + name + "," + x.Args[1].(*EInt).V + "): no such result"))
			}
			return v, true
		}
		v, _ := get(0)
		if _, more := c.trackArgT["ghost$res$"+name+"$1"]; more {
			var tv Val
			for k := 0; ; k++ {
				e, ok := get(k)
				if !ok {
					break
				}
				tv.Tuple = append(tv.Tuple, e)
			}
			return tv, true
		}
		return v, true
	case "cbfn":
		n := c.eval(env, x.Args[0])
		return Val{T: types.Typ[types.UnsafePointer], E: "(select " + c.heapGet(env.st, c.comp("ghost$cbfn", "(Array Int Int)")) + " " + n.E + ")"}, true
	case "cbargIface":
		n := c.eval(env, x.Args[0])
		k := x.Args[1].(*EInt).V
		return Val{T: types.NewInterfaceType(nil, nil), E: "(select " + c.heapGet(env.st, c.comp("ghost$cbarg$Iface$"+k, "(Array Int Iface)")) + " " + n.E + ")"}, true
	case "cbheld", "cbheldW", "cbgen":
		// lock state at the n-th logged callback: cbheld(n, mu) / cbheldW(n, mu); cbgen(n, mu) = acquisition number
		n := c.eval(env, x.Args[0])
		mu := c.eval(env, x.Args[1])
		m := mu.E
		if mu.Loc != nil {
			m = c.ptrTerm(mu)
		}
		if x.Fun == "cbgen" {
			return Val{T: tMath, E: "(select (select " + c.heapGet(env.st, c.comp("ghost$cblockgen", "(Array Int (Array Int Int))")) + " " + n.E + ") " + m + ")"}, true
		}
		ls := "(select (select " + c.heapGet(env.st, c.comp("ghost$cblock", "(Array Int (Array Int Int))")) + " " + n.E + ") " + m + ")"
		if x.Fun == "cbheldW" {
			return Val{T: tBool, E: "(= " + ls + " (- 1))"}, true
		}
		return Val{T: tBool, E: "(not (= " + ls + " 0))"}, true
	case "cbresIface", "cbresInt", "cbresBool":
		n := c.eval(env, x.Args[0])
		k := x.Args[1].(*EInt).V
		srt := strings.TrimPrefix(x.Fun, "cbres")
		t := map[string]types.Type{"Iface": types.NewInterfaceType(nil, nil), "Int": tMath, "Bool": tBool}[srt]
		return Val{T: t, E: "(select " + c.heapGet(env.st, c.comp("ghost$cbres$"+srt+"$"+k, "(Array Int "+srt+")")) + " " + n.E + ")"}, true
	case "msgval":
		// abstract content of a message (two live messages are proto.Equal iff same type and same msgval)
		m := c.eval(env, x.Args[0])
		ref := m.E
		if c.ty.SortOf(m.T) == sIface {
			ref = "(i-val " + m.E + ")"
		}
		return Val{T: tMath, E: c.msgVal(env.st, ref)}, true
	case "filtered":
		// filtered(v, paths): content of a message with content v after fmutils.Filter(_, paths)
		v, p := c.eval(env, x.Args[0]), c.eval(env, x.Args[1])
		c.sc.Decl("filterval", "(declare-fun |filterval| (Int Int) Int)")
		return Val{T: tMath, E: "(|filterval| " + v.E + " (s-arr " + p.E + "))"}, true
	case "pruned":
		// pruned(v, paths): content of a message with content v after fmutils.Prune(_, paths)
		v, p := c.eval(env, x.Args[0]), c.eval(env, x.Args[1])
		c.sc.Decl("pruneval", "(declare-fun |pruneval| (Int Int) Int)")
		return Val{T: tMath, E: "(|pruneval| " + v.E + " (s-arr " + p.E + "))"}, true
	case "emptymsg":
		m := c.eval(env, x.Args[0])
		c.sc.Decl("emptyval", "(declare-fun |emptyval| (Int) Int)")
		return Val{T: tMath, E: "(|emptyval| (i-tag " + m.E + "))"}, true
	case "pathsvalid":
		// pathsvalid(paths, msg): the field mask paths are valid for msg's type (what FieldMask.IsValid checks)
		pv, m := c.eval(env, x.Args[0]), c.eval(env, x.Args[1])
		c.sc.Decl("pathsvalid", "(declare-fun |pathsvalid| (Int Int) Bool)")
		if mt := derefMsgType(m.Dyn); mt != nil && !canFilterPanic(mt, map[string]bool{}, 0) {
			// the message type has no repeated-scalar or map field anywhere: fmutils cannot panic whatever the paths are
			return Val{T: tBool, E: "true"}, true
		}
		return Val{T: tBool, E: "(or (= (s-len " + pv.E + ") 0) (|pathsvalid| (s-arr " + pv.E + ") (i-tag " + m.E + ")))"}, true
	case "isfunc":
		// isfunc(v, Name$1): the function value v is (a closure of) the named function of the contract's package
		v := c.eval(env, x.Args[0])
		var name string
		switch a := x.Args[1].(type) {
		case *EIdent:
			name = a.Name
		case *ESel:
			name = calleeName(a)
		}
		fn := c.eng.funcByKey[env.specPkg+"."+name]
		if fn == nil {
			// a method's closure, named without its receiver (changeFn$1 for (WriteRequest).changeFn$1), when that is unambiguous
			var keys []string
			for k, f := range c.eng.funcByKey {
				if strings.HasPrefix(k, env.specPkg+".") && f.Name() == name {
					keys = append(keys, k)
				}
			}
			if len(keys) == 1 {
				fn = c.eng.funcByKey[keys[0]]
			}
		}
		if fn == nil {
			panic(specError("isfunc: unknown function " + name))
		}
		return Val{T: tBool, E: fmt.Sprintf("(= %s %d)", c.cloFn(v.E), c.eng.fnID(fn))}, true
	case "msgframe":
		// msgframe(a, b, ...): the abstract content of every message other than the listed ones is unchanged since old()
		var cs []string
		for i := range x.Args {
			m := c.eval(env, x.Args[i])
			ref := m.E
			if c.ty.SortOf(m.T) == sIface {
				ref = "(i-val " + m.E + ")"
			}
			cs = append(cs, "(distinct r "+ref+")")
		}
		if env.old == nil {
			panic(specError("msgframe outside a postcondition"))
		}
		now, before := c.heapGet(env.st, c.msgHeap()), c.heapGet(env.old, c.msgHeap())
		return Val{T: tBool, E: fmt.Sprintf("(forall ((r Int)) (! (=> (and %s (< r %s)) (= (select %s r) (select %s r))) :pattern ((select %s r))))", And(cs...), env.old.alloc, now, before, now)}, true
	case "isunion":
		r, a, b := c.eval(env, x.Args[0]), c.eval(env, x.Args[1]), c.eval(env, x.Args[2])
		c.sc.Decl("isunion", "(declare-fun |isunion| (Int Int Int) Bool)")
		return Val{T: tBool, E: "(|isunion| " + r.E + " " + a.E + " " + b.E + ")"}, true
	case "ref":
		// ref(x): the address of the object an interface/pointer value denotes
		v := c.eval(env, x.Args[0])
		return Val{T: tMath, E: refOf(c, v)}, true
	case "sametype":
		a, b := c.eval(env, x.Args[0]), c.eval(env, x.Args[1])
		return Val{T: tBool, E: "(= (i-tag " + a.E + ") (i-tag " + b.E + "))"}, true
	case "equalmsg":
		a, b := c.eval(env, x.Args[0]), c.eval(env, x.Args[1])
		if a.E == "NIL" {
			a = Val{T: b.T, E: c.ty.Zero(b.T)}
		}
		if b.E == "NIL" {
			b = Val{T: a.T, E: c.ty.Zero(a.T)}
		}
		return Val{T: tBool, E: c.protoEqualTerm(env.st, a.E, b.E)}, true
	case "calls":
		name := x.Args[0].(*EIdent).Name
		c.mustTrack(name, "calls")
		return Val{T: tMath, E: c.heapGet(env.st, c.comp("ghost$calls$"+name, "Int"))}, true
	case "lastarg":
		name := x.Args[0].(*EIdent).Name
		c.mustTrack(name, "lastarg")
		k := x.Args[1].(*EInt).V
		comp := "ghost$arg$" + name + "$" + k
		t, ok := c.trackArgT[comp]
		if !ok {
			if fn := c.eng.trackedSig(name); fn != nil {
				if kk, _ := strconv.Atoi(k); kk < len(fn.Params) {
					t, ok = fn.Params[kk].Type(), true
					c.comp(comp, c.ty.SortOf(t), t)
					c.trackArgT[comp] = t
				}
			}
		}
		if !ok {
			panic(specError("lastarg(" + name + "," + k + "): no tracked call"))
		}
		return Val{T: t, E: c.heapGet(env.st, comp)}, true
	case "lastargelem":
		// lastargelem(F, k, i): element i of the k-th (slice) argument of the latest tracked call of F, as it was at the call
		name := x.Args[0].(*EIdent).Name
		c.mustTrack(name, "lastargelem")
		comp := "ghost$argelem$" + name + "$" + x.Args[1].(*EInt).V + "$" + x.Args[2].(*EInt).V
		t, ok := c.trackArgT[comp]
		if !ok {
			// never called, or called with fewer elements / a slice of unknown length: some value nothing is known about
			var at types.Type
			if t0, seen := c.trackArgT["ghost$arg$"+name+"$"+x.Args[1].(*EInt).V]; seen {
				at = t0
			} else if fn := c.eng.trackedSig(name); fn != nil {
				if kk, _ := strconv.Atoi(x.Args[1].(*EInt).V); kk < len(fn.Params) {
					at = fn.Params[kk].Type()
				}
			}
			if at != nil {
				if slt, isS := at.Underlying().(*types.Slice); isS {
					t, ok = slt.Elem(), true
					c.comp(comp, c.ty.SortOf(t), t)
					c.trackArgT[comp] = t
				}
			}
		}
		if !ok {
			panic(specError("lastargelem(" + name + ",...): no snapshot (the argument is not a slice of statically known short length)"))
		}
		return Val{T: t, E: c.heapGet(env.st, comp)}, true
	case "lastheld", "lastheldW", "lastgen":
		// lock state at the latest tracked call of the named callee
		name := x.Args[0].(*EIdent).Name
		c.mustTrack(name, x.Fun)
		mu := c.eval(env, x.Args[1])
		if x.Fun == "lastgen" {
			return Val{T: tMath, E: "(select " + c.heapGet(env.st, c.comp("ghost$callgen$"+name, "(Array Int Int)")) + " " + mu.E + ")"}, true
		}
		ls := "(select " + c.heapGet(env.st, c.comp("ghost$calllock$"+name, "(Array Int Int)")) + " " + mu.E + ")"
		if x.Fun == "lastheldW" {
			return Val{T: tBool, E: "(= " + ls + " (- 1))"}, true
		}
		return Val{T: tBool, E: "(not (= " + ls + " 0))"}, true
	case "held", "heldW":
		m := c.eval(env, x.Args[0])
		if x.Fun == "heldW" {
			return Val{T: tBool, E: "(= " + c.lockState(env.st, m.E) + " (- 1))"}, true
		}
		return Val{T: tBool, E: "(not (= " + c.lockState(env.st, m.E) + " 0))"}, true
	case "cbcalls":
		return Val{T: tMath, E: c.heapGet(env.st, c.cbCallsComp())}, true
	case "cancelled":
		f := c.eval(env, x.Args[0])
		return Val{T: tBool, E: "(select " + c.heapGet(env.st, c.cancelComp()) + " " + f.E + ")"}, true
	}
	return Val{}, false
}

func (c *FnCtx) cbCallsComp() string { return c.comp("ghost$cbcalls", "Int") }
func (c *FnCtx) cancelComp() string  { return c.comp("ghost$cancelled", "(Array Int Bool)") }

// ---- callbacks / patterns ----

func (e *Engine) callbackSpec(t types.Type) *CallbackSpec {
	if n, ok := t.(*types.Named); ok && n.Obj().Pkg() != nil {
		if cb := e.specs.Callbacks[n.Obj().Pkg().Path()+"."+n.Obj().Name()]; cb != nil {
			return cb
		}
	}
	return nil
}

// callbackSpecFor: declaration by function type, or by the struct field / interface method the value came from
// (`//@ callback WriteRequest.expectedCheck: pure`, `//@ callback Clock.Now: modifies nothing`).
func (e *Engine) callbackSpecFor(t types.Type, from string) *CallbackSpec {
	if cb := e.callbackSpec(t); cb != nil {
		return cb
	}
	if from == "" {
		return nil
	}
	for k, cb := range e.specs.Callbacks {
		if strings.HasSuffix(k, "."+from) || cb.Name == from {
			return cb
		}
	}
	return nil
}

// patternMods expands modifies patterns: "nothing", "msgs" (all protobuf message fields), "H$T$f", "T.f", "T.*".
func (e *Engine) patternMods(c *FnCtx, pats []string) *modSet {
	m := newModSet()
	for _, p := range pats {
		p = strings.TrimSpace(p)
		switch {
		case p == "" || p == "nothing":
		case p == "all":
			m.all = true
		case p == "msgs":
			for _, k := range e.compOrder {
				if e.isMessageComp(k) {
					m.comps[k] = true
				}
			}
		case strings.HasSuffix(p, ".*"):
			tn := strings.TrimSuffix(p, ".*")
			pre := "H$" + tn + "$"
			for _, k := range e.compOrder {
				// qualified (pkg.T) or bare type name
				if strings.HasPrefix(k, pre) || (strings.HasPrefix(k, "H$") && strings.Contains(k, "."+tn+"$") && !strings.Contains(tn, ".")) {
					m.comps[k] = true
				}
			}
		case strings.Contains(p, "$"):
			m.comps[p] = true
		case strings.Contains(p, "."):
			k := strings.LastIndex(p, ".")
			m.comps["H$"+p[:k]+"$"+p[k+1:]] = true
			// Type.field without the package qualifier
			for _, cn := range e.compOrder {
				if strings.HasPrefix(cn, "H$") && strings.HasSuffix(cn, "."+p[:k]+"$"+p[k+1:]) {
					m.comps[cn] = true
				}
			}
		default:
			m.comps[p] = true
		}
	}
	return m
}

func (e *Engine) isMessageComp(k string) bool {
	return strings.HasPrefix(k, "H$traits.") || strings.HasPrefix(k, "H$types.") || strings.HasPrefix(k, "H$timestamppb.") ||
		strings.HasPrefix(k, "H$durationpb.") || strings.HasPrefix(k, "H$time.") || strings.HasPrefix(k, "H$wrapperspb.")
}

func (e *Engine) invokeMods(c *FnCtx, call *ssa.CallCommon) *modSet {
	if cb := e.callbackSpecFor(nil, shortIfaceName(call.Value.Type())+"."+call.Method.Name()); cb != nil {
		if cb.Pure {
			return newModSet()
		}
		m := e.patternMods(c, cb.Modifies)
		m.alloc = true
		return m
	}
	if isProtoreflectType(call.Value.Type()) {
		return newModSet()
	}
	if pi := e.preludeInvoke(call.Value.Type(), call.Method); pi != nil {
		m := newModSet()
		m.alloc = true
		return m
	}
	return nil
}

// ---- library knowledge ----

type preludeFn func(c *FnCtx, fr *Frame, st *State, fn *ssa.Function, args []Val, pos token.Pos) *Val
type preludeInv func(c *FnCtx, fr *Frame, st *State, recv Val, m *types.Func, args []Val, pos token.Pos) *Val

func fullName(fn *ssa.Function) string {
	if fn.Object() != nil {
		if f, ok := fn.Object().(*types.Func); ok {
			return f.FullName()
		}
	}
	return fn.String()
}

var pureLibPrefixes = []string{
	"fmt.Sprintf", "fmt.Sprint", "fmt.Errorf", "errors.New", "strconv.", "strings.", "encoding/base64.", "(*encoding/base64.Encoding).",
	"google.golang.org/grpc/status.Error", "google.golang.org/grpc/status.Errorf", "google.golang.org/grpc/status.Code",
	"google.golang.org/grpc/status.FromError", "google.golang.org/grpc/status.Convert", "(*google.golang.org/grpc/status.Status).", "(*google.golang.org/grpc/internal/status.Status).",
	"google.golang.org/protobuf/proto.Marshal", "(google.golang.org/protobuf/reflect/protoreflect.", "math.", "unicode.", "unicode/utf8.", "path.", "crypto/md5.", "hash/fnv.", "encoding/hex.",
	"(time.Duration).", "time.Duration.", "(time.Time).", "time.Time.", "time.Unix", "time.Date",
}

func (e *Engine) isPureLib(fn *ssa.Function) bool {
	n := fullName(fn)
	for _, p := range pureLibPrefixes {
		if strings.HasPrefix(n, p) {
			return true
		}
	}
	return false
}

var noHeapPrefixes = []string{
	"log.", "(*log.Logger).", "fmt.", "context.", "time.", "sync.", "(*sync.", "sync/atomic.", "errors.", "sort.Strings", "sort.Ints",
	"google.golang.org/protobuf/proto.Equal", "google.golang.org/protobuf/proto.Clone", "google.golang.org/protobuf/proto.Size",
	"google.golang.org/protobuf/proto.Marshal", "go.uber.org/zap", "(*go.uber.org/zap", "os.", "runtime.", "io.",
	"google.golang.org/grpc/metadata.", "google.golang.org/grpc/status.", "google.golang.org/grpc/codes.",
	"math/rand.New", "math/rand.NewSource",
}

func (e *Engine) noHeapEffect(fn *ssa.Function) bool {
	n := fullName(fn)
	for _, p := range noHeapPrefixes {
		if strings.HasPrefix(n, p) {
			return true
		}
	}
	return false
}

func (e *Engine) preludeMods(c *FnCtx, fn *ssa.Function) *modSet {
	if e.isPureLib(fn) {
		return newModSet()
	}
	if e.noHeapEffect(fn) {
		m := newModSet()
		m.alloc = true
		return m
	}
	if p := e.preludeFor(fn); p != nil {
		if mm, ok := preludeModTable[fullName(fn)]; ok {
			return e.patternMods(c, mm)
		}
		m := newModSet()
		m.alloc = true
		return m
	}
	return nil
}

var preludeModTable = map[string][]string{}

var preludeTable = map[string]preludeFn{}
var preludeInvTable = map[string]preludeInv{}

func (e *Engine) preludeFor(fn *ssa.Function) preludeFn {
	return preludeTable[fullName(fn)]
}

func (e *Engine) preludeInvoke(recvT types.Type, m *types.Func) preludeInv {
	return preludeInvTable[m.FullName()]
}

func init() {
	// context.Context: Done() is a fixed channel of the context, Err()/Deadline()/Value() do not touch the heap
	preludeInvTable["(context.Context).Done"] = func(c *FnCtx, fr *Frame, st *State, recv Val, m *types.Func, args []Val, pos token.Pos) *Val {
		r := c.uninterp(st, "ctx$Done", []Val{recv}, m.Type().(*types.Signature).Results())
		return r
	}
	ctxFresh := func(c *FnCtx, fr *Frame, st *State, recv Val, m *types.Func, args []Val, pos token.Pos) *Val {
		resT := m.Type().(*types.Signature).Results()
		var vs []Val
		for k := 0; k < resT.Len(); k++ {
			vs = append(vs, c.fresh("ctx$"+m.Name(), resT.At(k).Type(), st))
		}
		return tupleVal(resT, vs)
	}
	preludeInvTable["(context.Context).Err"] = ctxFresh
	preludeInvTable["(context.Context).Deadline"] = ctxFresh
	preludeInvTable["(context.Context).Value"] = ctxFresh
	preludeInvTable["(google.golang.org/protobuf/reflect/protoreflect.ProtoMessage).ProtoReflect"] = func(c *FnCtx, fr *Frame, st *State, recv Val, m *types.Func, args []Val, pos token.Pos) *Val {
		resT := m.Type().(*types.Signature).Results()
		r := c.uninterp(st, "inv$proto.Message.ProtoReflect", []Val{recv}, resT)
		fI := q("inv$protoreflect.Message.Interface$0")
		c.sc.Decl("uf:"+fI, "(declare-fun "+fI+" (Iface) Iface)")
		c.assume(st, "(and (= ("+fI+" "+r.E+") "+recv.E+") (not (= (i-tag "+r.E+") 0)))")
		return r
	}
	// time.Duration is an int64 count of nanoseconds
	idArg := func(c *FnCtx, fr *Frame, st *State, fn *ssa.Function, args []Val, pos token.Pos) *Val {
		return &Val{T: fn.Signature.Results().At(0).Type(), E: args[0].E}
	}
	preludeTable["(time.Duration).Nanoseconds"] = idArg
	preludeTable["(time.Duration).Abs"] = func(c *FnCtx, fr *Frame, st *State, fn *ssa.Function, args []Val, pos token.Pos) *Val {
		d := args[0].E
		e := "(ite (>= " + d + " 0) " + d + " (ite (= " + d + " (- 9223372036854775808)) 9223372036854775807 (- " + d + ")))"
		return &Val{T: args[0].T, E: c.sc.Define("abs", sInt, e)}
	}
	// math on the abstract float domain
	f1 := func(op string) preludeFn {
		return func(c *FnCtx, fr *Frame, st *State, fn *ssa.Function, args []Val, pos token.Pos) *Val {
			return &Val{T: tFloat, E: c.sc.Define(op, sFlt, "("+op+" "+args[0].E+")")}
		}
	}
	f2 := func(op string) preludeFn {
		return func(c *FnCtx, fr *Frame, st *State, fn *ssa.Function, args []Val, pos token.Pos) *Val {
			return &Val{T: tFloat, E: c.sc.Define(op, sFlt, "("+op+" "+args[0].E+" "+args[1].E+")")}
		}
	}
	preludeTable["math.Abs"] = f1("fabs")
	preludeTable["math.Min"] = f2("fmin")
	preludeTable["math.Max"] = f2("fmax")
	preludeTable["math.IsNaN"] = func(c *FnCtx, fr *Frame, st *State, fn *ssa.Function, args []Val, pos token.Pos) *Val {
		return &Val{T: tBool, E: "((_ is nan) " + args[0].E + ")"}
	}
	preludeTable["context.WithCancel"] = func(c *FnCtx, fr *Frame, st *State, fn *ssa.Function, args []Val, pos token.Pos) *Val {
		ctx := c.fresh("ctx", fn.Signature.Results().At(0).Type(), st)
		c.assume(st, "(not (= (i-tag "+ctx.E+") 0))")
		ref := c.newRef(st, "cancel")
		c.nonNil[ref] = true
		h := c.cancelComp()
		c.heapSet(st, h, "(store "+c.heapGet(st, h)+" "+ref+" false)")
		cf := Val{T: fn.Signature.Results().At(1).Type(), E: ref, Cancel: true}
		return &Val{T: fn.Signature.Results(), Tuple: []Val{ctx, cf}}
	}
	ctxRoot := func(c *FnCtx, fr *Frame, st *State, fn *ssa.Function, args []Val, pos token.Pos) *Val {
		r := c.fresh("ctx", fn.Signature.Results().At(0).Type(), st)
		c.assume(st, "(not (= (i-tag "+r.E+") 0))")
		return &r
	}
	preludeTable["context.TODO"] = ctxRoot
	preludeTable["context.Background"] = ctxRoot
	preludeTable["context.WithTimeout"] = func(c *FnCtx, fr *Frame, st *State, fn *ssa.Function, args []Val, pos token.Pos) *Val {
		return preludeTable["context.WithCancel"](c, fr, st, fn, args, pos)
	}
	// errors: constructors return non-nil errors; gRPC status errors carry their code (nil for codes.OK)
	nonNilErr := func(c *FnCtx, fr *Frame, st *State, fn *ssa.Function, args []Val, pos token.Pos) *Val {
		r := c.fresh("err", fn.Signature.Results().At(0).Type(), st)
		c.assume(st, "(not (= (i-tag "+r.E+") 0))")
		return &r
	}
	preludeTable["errors.New"] = nonNilErr
	preludeTable["fmt.Errorf"] = nonNilErr
	statusErr := func(c *FnCtx, fr *Frame, st *State, fn *ssa.Function, args []Val, pos token.Pos) *Val {
		r := c.fresh("statusErr", fn.Signature.Results().At(0).Type(), st)
		c.sc.Decl("errcode", "(declare-fun |errcode| (Iface) Int)")
		c.assume(st, "(= (= (i-tag "+r.E+") 0) (= "+args[0].E+" 0))")
		c.assume(st, "(= (|errcode| "+r.E+") "+args[0].E+")")
		return &r
	}
	preludeTable["google.golang.org/grpc/status.Error"] = statusErr
	preludeTable["google.golang.org/grpc/status.Errorf"] = statusErr
	preludeTable["google.golang.org/grpc/status.Code"] = func(c *FnCtx, fr *Frame, st *State, fn *ssa.Function, args []Val, pos token.Pos) *Val {
		c.sc.Decl("errcode", "(declare-fun |errcode| (Iface) Int)")
		r := Val{T: fn.Signature.Results().At(0).Type(), E: c.sc.Define("code", sInt, Ite("(= (i-tag "+args[0].E+") 0)", "0", "(|errcode| "+args[0].E+")"))}
		return &r
	}
	// status.FromError(err): the *Status of a status error carries that error's code; a nil error is (nil, true);
	// a non-nil error never carries codes.OK (status.Error(OK, ...) is nil) — assumed for foreign GRPCStatus() types
	preludeTable["google.golang.org/grpc/status.FromError"] = func(c *FnCtx, fr *Frame, st *State, fn *ssa.Function, args []Val, pos token.Pos) *Val {
		c.sc.Decl("errcode", "(declare-fun |errcode| (Iface) Int)")
		c.sc.Decl("statuscode", "(declare-fun |statuscode| (Int) Int)")
		rt := fn.Signature.Results()
		s := c.fresh("status", rt.At(0).Type(), st)
		ok := c.fresh("isStatus", rt.At(1).Type(), st)
		e := args[0].E
		c.assume(st, "(=> (= (i-tag "+e+") 0) (and (= "+s.E+" 0) "+ok.E+"))")
		c.assume(st, "(=> (and (not (= (i-tag "+e+") 0)) "+ok.E+") (and (not (= "+s.E+" 0)) (= (|statuscode| "+s.E+") (|errcode| "+e+")) (not (= (|errcode| "+e+") 0))))")
		return &Val{T: rt, Tuple: []Val{s, ok}}
	}
	statusCode := func(c *FnCtx, fr *Frame, st *State, fn *ssa.Function, args []Val, pos token.Pos) *Val {
		c.sc.Decl("statuscode", "(declare-fun |statuscode| (Int) Int)")
		return &Val{T: fn.Signature.Results().At(0).Type(), E: c.sc.Define("scode", sInt, Ite("(= "+args[0].E+" 0)", "0", "(|statuscode| "+args[0].E+")"))}
	}
	preludeTable["(*google.golang.org/grpc/internal/status.Status).Code"] = statusCode
	preludeTable["(*google.golang.org/grpc/status.Status).Code"] = statusCode
	// time.Time is an instant in nanoseconds (an unbounded integer); Sub saturates like the library
	preludeTable["(*google.golang.org/protobuf/types/known/timestamppb.Timestamp).AsTime"] = func(c *FnCtx, fr *Frame, st *State, fn *ssa.Function, args []Val, pos token.Pos) *Val {
		x := args[0]
		c.nilCheck(st, x.E, pos)
		ts := x.T.Underlying().(*types.Pointer).Elem()
		st0 := ts.Underlying().(*types.Struct)
		var secs, nanos string
		for k := 0; k < st0.NumFields(); k++ {
			switch st0.Field(k).Name() {
			case "Seconds":
				secs = "(select " + c.heapGet(st, c.fieldHeap(ts, k)) + " " + x.E + ")"
			case "Nanos":
				nanos = "(select " + c.heapGet(st, c.fieldHeap(ts, k)) + " " + x.E + ")"
			}
		}
		return &Val{T: fn.Signature.Results().At(0).Type(), E: c.sc.Define("instant", sInt, "(+ (* "+secs+" 1000000000) "+nanos+")")}
	}
	timeCmp := func(op string) preludeFn {
		return func(c *FnCtx, fr *Frame, st *State, fn *ssa.Function, args []Val, pos token.Pos) *Val {
			return &Val{T: tBool, E: c.sc.Define("tcmp", sBool, "("+op+" "+args[0].E+" "+args[1].E+")")}
		}
	}
	preludeTable["(time.Time).Before"] = timeCmp("<")
	preludeTable["(time.Time).After"] = timeCmp(">")
	preludeTable["(time.Time).Equal"] = timeCmp("=")
	preludeTable["(time.Time).Sub"] = func(c *FnCtx, fr *Frame, st *State, fn *ssa.Function, args []Val, pos token.Pos) *Val {
		d := "(- " + args[0].E + " " + args[1].E + ")"
		e := "(ite (> " + d + " 9223372036854775807) 9223372036854775807 (ite (< " + d + " (- 9223372036854775808)) (- 9223372036854775808) " + d + "))"
		return &Val{T: fn.Signature.Results().At(0).Type(), E: c.sc.Define("tsub", sInt, e)}
	}
	preludeTable["math.Floor"] = func(c *FnCtx, fr *Frame, st *State, fn *ssa.Function, args []Val, pos token.Pos) *Val {
		x := args[0].E
		return &Val{T: tFloat, E: c.sc.Define("floor", sFlt, "(ite ((_ is fin) "+x+") (fin (to_real (to_int (fv "+x+")))) "+x+")")}
	}
}

var _ = fmt.Sprintf

// anyTracked: some call of the named callee was seen in the verified code.
func (c *FnCtx) anyTracked(name string) bool {
	for k := range c.trackArgT {
		if strings.HasPrefix(k, "ghost$arg$"+name+"$") {
			return true
		}
	}
	return false
}

// trackedSig: the module's function of that name, when there is exactly one signature it can mean; used to type the
// call-log terms of a tracked callee that the verified code does not call at all.
func (e *Engine) trackedSig(name string) *ssa.Function {
	var found *ssa.Function
	for _, fn := range e.funcByKey {
		if fn.Name() != name || fn.Parent() != nil {
			continue
		}
		if found != nil && found.Signature.String() != fn.Signature.String() {
			return nil
		}
		if found == nil || e.funcByKeyName(fn) < e.funcByKeyName(found) {
			found = fn
		}
	}
	return found
}

func (e *Engine) funcByKeyName(fn *ssa.Function) string { return e.funcPkgPath(fn) + "." + funcKey(fn) }

// mustTrack: ghost call counters exist only for the callees the contract being verified tracks; a callee's clause that
// speaks about calls the caller does not track has no meaning at that call site (and is skipped there).
func (c *FnCtx) mustTrack(name, what string) {
	if c.spec != nil {
		for _, t := range c.spec.Track {
			if t == name {
				return
			}
		}
	}
	panic(specError(what + "(" + name + "): no tracked call"))
}
