package main

// Assumed contracts of package sort, stated over the *real* predicate/less closure of the call site (the closure
// body is turned into an SMT term over symbolic indices, so the contract talks about the code's own comparison).

import (
	"fmt"
	"go/token"
	"go/types"

	"golang.org/x/tools/go/ssa"
)

func (c *FnCtx) qvar(hint string) Val {
	c.sc.nameSeq++
	return Val{T: tInt, E: q(fmt.Sprintf("q$%s!%d", hint, c.sc.nameSeq))}
}

func init() {
	// sort.Search(n, f): the binary search ends at an index r in [0,n] with f(r-1) false and f(r) true (at the
	// boundaries the respective fact is void).  This holds for ANY f; the "smallest index" reading additionally needs
	// f to be monotone, which the caller derives from sortedness where it needs it.
	preludeTable["sort.Search"] = func(c *FnCtx, fr *Frame, st *State, fn *ssa.Function, args []Val, pos token.Pos) *Val {
		n, f := args[0], args[1]
		if f.Clo == nil {
			c.unsupported("sort.Search with an unknown predicate")
		}
		i := c.qvar("i")
		_, safe := c.closureTerm(fr, st, f.Clo, []Val{i})
		if safe != "true" {
			o := c.obligation(st, "safe", "search-predicate", fmt.Sprintf("(forall ((%s Int)) (=> (and (<= 0 %s) (< %s %s)) %s))", i.E, i.E, i.E, n.E, safe), pos)
			o.Desc = "the predicate passed to sort.Search cannot panic for any index in [0,n)"
		}
		r := c.fresh("search", tInt, st)
		c.assume(st, "(and (<= 0 "+r.E+") (<= "+r.E+" "+n.E+"))")
		at := func(ix string) string {
			res, _ := c.closureTerm(fr, st, f.Clo, []Val{{T: tInt, E: ix}})
			return res[0].E
		}
		c.assume(st, "(=> (< "+r.E+" "+n.E+") "+at(r.E)+")")
		c.assume(st, "(=> (> "+r.E+" 0) "+Not(at("(- "+r.E+" 1)"))+")")
		return &r
	}
	sortSlice := func(c *FnCtx, fr *Frame, st *State, fn *ssa.Function, args []Val, pos token.Pos) *Val {
		x, less := args[0], args[1]
		if less.Clo == nil || x.Dyn == nil {
			c.unsupported("sort.Slice with unknown slice type or less function")
		}
		slt, ok := x.Dyn.Underlying().(*types.Slice)
		if !ok {
			c.unsupported("sort.Slice on %s", x.Dyn)
		}
		s := c.sc.Define("sorted", sSlice, "(unbox-Slice (i-val "+x.E+"))")
		h := c.elemHeap(slt.Elem())
		es := c.ty.SortOf(slt.Elem())
		n := "(s-len " + s + ")"
		off := "(s-off " + s + ")"
		i, j := c.qvar("i"), c.qvar("j")
		_, safe := c.closureTerm(fr, st, less.Clo, []Val{i, j})
		if safe != "true" {
			o := c.obligation(st, "safe", "less", fmt.Sprintf("(forall ((%[1]s Int) (%[2]s Int)) (=> (and (<= 0 %[1]s) (< %[1]s %[3]s) (<= 0 %[2]s) (< %[2]s %[3]s)) %[4]s))", i.E, j.E, n, safe), pos)
			o.Desc = "the less function passed to sort.Slice cannot panic for indices in range"
		}
		c.eng.onSliceWrite(c, st, Val{T: x.Dyn, E: s}, "(> "+n+" 1)", pos)
		H := c.heapGet(st, h)
		old := c.sc.Define("presort", "(Array Int "+es+")", "(select "+H+" (s-arr "+s+"))")
		na := c.sc.Fresh("postsort", "(Array Int "+es+")")
		pi := c.sc.Fresh("perm", "(Array Int Int)")
		pinv := c.sc.Fresh("perminv", "(Array Int Int)")
		c.assume(st, fmt.Sprintf("(forall ((k Int)) (! (=> (not (and (<= %[1]s k) (< k (+ %[1]s %[2]s)))) (= (select %[3]s k) (select %[4]s k))) :pattern ((select %[3]s k))))", off, n, na, old))
		c.assume(st, fmt.Sprintf("(forall ((k Int)) (! (=> (and (<= 0 k) (< k %[1]s)) (and (<= 0 (select %[2]s k)) (< (select %[2]s k) %[1]s) (= (select %[3]s (select %[2]s k)) k) (= (select %[4]s (+ %[5]s k)) (select %[6]s (+ %[5]s (select %[2]s k)))))) :pattern ((select %[2]s k)) :pattern ((select %[4]s (+ %[5]s k)))))", n, pi, pinv, na, off, old))
		c.assume(st, fmt.Sprintf("(forall ((k Int)) (! (=> (and (<= 0 k) (< k %[1]s)) (and (<= 0 (select %[2]s k)) (< (select %[2]s k) %[1]s) (= (select %[3]s (select %[2]s k)) k))) :pattern ((select %[2]s k))))", n, pinv, pi))
		// the same two facts in absolute array positions (the form quantified contract clauses take after index
		// rewriting): every new element is an old one, and every old element is found again
		c.assume(st, fmt.Sprintf("(forall ((p Int)) (! (=> (and (<= %[1]s p) (< p (+ %[1]s %[2]s))) (= (select %[3]s p) (select %[4]s (+ %[1]s (select %[5]s (- p %[1]s)))))) :pattern ((select %[3]s p))))", off, n, na, old, pi))
		c.assume(st, fmt.Sprintf("(forall ((p Int)) (! (=> (and (<= %[1]s p) (< p (+ %[1]s %[2]s))) (= (select %[3]s (+ %[1]s (select %[5]s (- p %[1]s)))) (select %[4]s p))) :pattern ((select %[4]s p))))", off, n, na, old, pinv))
		if c.ty.SortOf(slt.Elem()) == sInt {
			// consequence of being a permutation, stated directly to spare the solver the detour through perm:
			// if no element was nil before, none is nil afterwards
			c.assume(st, fmt.Sprintf("(=> (forall ((k Int)) (! (=> (and (<= %[1]s k) (< k (+ %[1]s %[2]s))) (not (= (select %[3]s k) 0))) :pattern ((select %[3]s k)))) (forall ((k Int)) (! (=> (and (<= %[1]s k) (< k (+ %[1]s %[2]s))) (not (= (select %[4]s k) 0))) :pattern ((select %[4]s k)))))", off, n, old, na))
		}
		c.heapSet(st, h, "(store "+H+" (s-arr "+s+") "+na+")")
		// sorted with respect to the call site's own less function, evaluated on the permuted contents
		res, _ := c.closureTerm(fr, st, less.Clo, []Val{j, i})
		body := fmt.Sprintf("(=> (and (<= 0 %[1]s) (< %[1]s %[2]s) (< %[2]s %[3]s)) (not %[4]s))", i.E, j.E, n, res[0].E)
		di, dj := "("+i.E+" Int)", "("+j.E+" Int)"
		body, di, _ = absoluteIndex(body, i.E, di)
		body, dj, _ = absoluteIndex(body, j.E, dj)
		c.assume(st, "(forall ("+di+" "+dj+") "+body+")")
		return nil
	}
	preludeTable["sort.Slice"] = sortSlice
	preludeTable["sort.SliceStable"] = sortSlice
}
