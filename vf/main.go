package main

import (
	"encoding/json"
	"flag"
	"fmt"
	"os"
	"path/filepath"
	"runtime"
	"sort"
	"strconv"
	"strings"
	"time"
)

var verifRoot = "/verif"

func main() {
	if len(os.Args) < 2 {
		fmt.Fprintln(os.Stderr, "usage: vf check <property> [--tier quick|thorough] | vf dump <func-key> | vf list")
		os.Exit(2)
	}
	if d := os.Getenv("VF_VERIF_ROOT"); d != "" {
		verifRoot = d
	}
	switch os.Args[1] {
	case "check":
		os.Exit(cmdCheck(os.Args[2:]))
	case "dump":
		os.Exit(cmdDump(os.Args[2:]))
	case "list":
		os.Exit(cmdList(os.Args[2:]))
	case "replay":
		os.Exit(cmdReplay(os.Args[2:]))
	case "baseline":
		os.Exit(cmdBaseline(os.Args[2:]))
	default:
		fmt.Fprintln(os.Stderr, "unknown command", os.Args[1])
		os.Exit(2)
	}
}

func repoRoot() string {
	if r := os.Getenv("VF_REPO"); r != "" {
		return r
	}
	return "/repo"
}

func loadKnown() *KnownFindings {
	kf := &KnownFindings{}
	data, err := os.ReadFile(filepath.Join(verifRoot, "known_findings.json"))
	if err != nil {
		return kf
	}
	if err := json.Unmarshal(data, kf); err != nil {
		fmt.Fprintln(os.Stderr, "known_findings.json:", err)
		os.Exit(2)
	}
	return kf
}

func hasProp(props []string, id string) bool {
	for _, p := range props {
		if p == id {
			return true
		}
	}
	return false
}

type obRecord struct {
	Name    string  `json:"name"`
	Kind    string  `json:"kind"`
	Status  string  `json:"status"`
	Solver  string  `json:"solver"`
	Seconds float64 `json:"seconds"`
	Desc    string  `json:"desc,omitempty"`
	Pos     string  `json:"pos,omitempty"`
	Bounded string  `json:"bounded,omitempty"`
	Note    string  `json:"note,omitempty"`
}

func cmdCheck(args []string) int {
	fs := flag.NewFlagSet("check", flag.ExitOnError)
	tier := fs.String("tier", "quick", "quick|thorough")
	keep := fs.Bool("keep", false, "keep all SMT queries")
	only := fs.String("only", "", "only functions whose name contains this")
	verbose := fs.Bool("v", false, "verbose")
	var pid string
	if len(args) > 0 && !strings.HasPrefix(args[0], "-") {
		pid = args[0]
		args = args[1:]
	}
	fs.Parse(args)
	if pid == "" {
		pid = fs.Arg(0)
	}
	if t := os.Getenv("VERIF_TIER"); t != "" && (t == "quick" || t == "thorough") {
		*tier = t
	}
	seed := 0
	if s := os.Getenv("VERIF_SEED"); s != "" {
		seed, _ = strconv.Atoi(s)
	}
	keepQueries = *keep
	t0 := time.Now()
	var err error
	workDir, err = os.MkdirTemp("", "vf-"+pid+"-")
	if err != nil {
		fmt.Fprintln(os.Stderr, err)
		return 2
	}
	if !*keep {
		defer os.RemoveAll(workDir)
	} else {
		fmt.Fprintln(os.Stderr, "queries kept in", workDir)
	}
	eng, err := LoadEngine(repoRoot())
	if err != nil {
		fmt.Fprintln(os.Stderr, "load:", err)
		fmt.Printf("VIOLATION property=%s replay=%s no-failing-input-found\n", pid, writeReplayFile(pid, "load-error", map[string]any{"error": err.Error(), "obligation": "repo#builds-with-contracts"}))
		return 1
	}
	loadS := time.Since(t0).Seconds()
	kf := loadKnown()
	timeout := 10
	confirm := false
	if *tier == "thorough" {
		timeout = 60
		confirm = true
	}
	var reports []*FnReport
	var keysSorted []string
	for k, s := range eng.specs.Funcs {
		if hasProp(s.Props, pid) && (*only == "" || strings.Contains(k, *only)) {
			keysSorted = append(keysSorted, k)
		}
	}
	sort.Strings(keysSorted)
	for _, k := range keysSorted {
		spec := eng.specs.Funcs[k]
		mode := spec.Mode
		if mode == "" {
			mode = "SEQ"
		}
		if mode == "BOTH" {
			reports = append(reports, eng.VerifyFunc(spec, "SEQ", kf), eng.VerifyFunc(spec, "INT", kf))
			continue
		}
		reports = append(reports, eng.VerifyFunc(spec, mode, kf))
	}
	// contracts serving other properties may call functions whose contract serves this one: their call-site
	// preconditions are obligations of this property
	var otherKeys []string
	for k, s := range eng.specs.Funcs {
		if !hasProp(s.Props, pid) && !s.Trusted && !s.NoVerify && (*only == "" || strings.Contains(k, *only)) {
			otherKeys = append(otherKeys, k)
		}
	}
	sort.Strings(otherKeys)
	for _, k := range otherKeys {
		spec := eng.specs.Funcs[k]
		mode := spec.Mode
		if mode == "" || mode == "BOTH" {
			mode = "SEQ"
		}
		rep := eng.VerifyFunc(spec, mode, kf)
		if rep.Err != "" {
			continue // reported by that contract's own properties
		}
		var keep []*Obligation
		for _, o := range rep.Obs {
			if o.Kind == "call" && hasProp(o.OwnerProps, pid) {
				keep = append(keep, o)
			}
		}
		if len(keep) > 0 {
			rep.Obs = keep
			reports = append(reports, rep)
		}
	}
	for _, lm := range eng.specs.Lemmas {
		if hasProp(lm.Props, pid) && (*only == "" || strings.Contains(lm.Name, *only)) {
			reports = append(reports, eng.VerifyLemma(lm))
		}
	}
	reports = append(reports, eng.extraChecks(pid, kf, *only)...)
	genS := time.Since(t0).Seconds() - loadS

	var obs []*Obligation
	deferred := map[string]bool{}
	for _, r := range reports {
		var keep []*Obligation
		for _, o := range r.Obs {
			if o.Kind == "call" && len(o.OwnerProps) > 0 && !hasProp(o.OwnerProps, pid) {
				// a precondition of a callee whose contract serves other properties: it is an obligation of those
				// properties' checks (the caller is verified there too); here it is only an assumption
				deferred[fmt.Sprintf("%s (checked under %s)", o.Name, strings.Join(o.OwnerProps, ","))] = true
				continue
			}
			if sp := r.Spec; sp != nil && len(sp.ClauseProps) > 0 {
				// clauses tagged [name@Cxx] belong to those properties only; everything untagged (safety, invariants, locks)
				// is checked under every property the contract serves
				lbl := clauseLabelOf(o.Name)
				if cp, tagged := sp.ClauseProps[lbl]; tagged {
					if !hasProp(cp, pid) {
						continue
					}
				}
			}
			o.Props = []string{pid}
			keep = append(keep, o)
			obs = append(obs, o)
		}
		r.Obs = keep
	}
	for _, o := range obs {
		for _, f := range kf.Findings {
			if f.Obligation == o.Name && f.Property == pid {
				o.NoRetry = true
			}
		}
	}
	results := SolveAll(obs, timeout, confirm, runtime.NumCPU())
	byOb := map[*Obligation]*Result{}
	for _, r := range results {
		byOb[r.Ob] = r
	}

	// classify
	exit := 0
	var records []obRecord
	var samples []any
	nProof, nDischarged, nBounded, nBoundedOK, nVac, nVacOK := 0, 0, 0, 0, 0, 0
	solverTime := 0.0
	backends := map[string]int{}
	knownLines, violLines, undecided := []string{}, []string{}, []string{}
	funcs := []string{}
	assumptions := map[string]bool{}
	unmodelled := map[string]bool{}
	for _, rep := range reports {
		funcs = append(funcs, rep.Name)
		for _, a := range rep.Assumed {
			assumptions[a] = true
		}
		for _, a := range rep.Unmodelled {
			unmodelled[rep.Name+": "+a] = true
		}
		if rep.Err != "" {
			switch rep.ErrKind {
			case "missing":
				p := writeReplayFile(pid, rep.Name+"#exists", map[string]any{"obligation": rep.Name + "#exists", "reason": rep.Err})
				violLines = append(violLines, fmt.Sprintf("VIOLATION property=%s replay=%s no-failing-input-found", pid, p))
				records = append(records, obRecord{Name: rep.Name + "#exists", Kind: "exists", Status: "failed", Note: rep.Err})
				nProof++
			case "subset":
				undecided = append(undecided, rep.Name+": "+rep.Err)
				records = append(records, obRecord{Name: rep.Name + "#translatable", Kind: "subset", Status: "undecided", Note: rep.Err})
			default:
				fmt.Fprintf(os.Stderr, "SPEC ERROR %s: %s\n", rep.Name, rep.Err)
				p := writeReplayFile(pid, rep.Name+"#spec", map[string]any{"obligation": rep.Name + "#contract-well-formed", "reason": rep.Err})
				violLines = append(violLines, fmt.Sprintf("VIOLATION property=%s replay=%s no-failing-input-found", pid, p))
				records = append(records, obRecord{Name: rep.Name + "#contract-well-formed", Kind: "spec", Status: "failed", Note: rep.Err})
				nProof++
			}
			continue
		}
		fnd := eng.findingsFor(kf, rep.Name)
		for _, o := range rep.Obs {
			r := byOb[o]
			solverTime += r.Seconds
			rec := obRecord{Name: o.Name, Kind: o.Kind, Status: r.Status, Solver: r.Solver, Seconds: round3(r.Seconds), Desc: o.Desc, Pos: o.Pos, Bounded: o.Bounded}
			want := "unsat"
			if o.Expect == "sat" {
				want = "sat"
			}
			ok := r.Status == want
			if o.Expect == "sat" {
				nVac++
				if ok {
					nVacOK++
				} else if r.Status == "unsat" && o.Optional {
					ok = true
					nVacOK++
					rec.Note = "unreachable call site"
				} else if r.Status == "unsat" && o.PairPre != nil && (byOb[o.PairPre] == nil || byOb[o.PairPre].Status != "sat") {
					ok = true
					nVacOK++
					rec.Note = "call site not shown reachable before the call either"
				} else if r.Status == "unsat" {
					// contradictory precondition / unreachable body: the proof would be vacuous
					p := writeReplayFile(pid, o.Name, map[string]any{"obligation": o.Name, "reason": "vacuity probe refuted: " + o.Desc, "solver": r.Tried})
					violLines = append(violLines, fmt.Sprintf("VIOLATION property=%s replay=%s no-failing-input-found", pid, p))
					rec.Note = "vacuous"
				} else {
					ok = true // unknown on a satisfiability probe is not an alarm
					nVacOK++
					rec.Note = "probe undecided"
				}
				records = append(records, rec)
				continue
			}
			if o.Bounded != "" {
				nBounded++
			} else {
				nProof++
			}
			if ok {
				backends[r.Solver]++
				if o.Bounded != "" {
					nBoundedOK++
				} else {
					nDischarged++
				}
				if len(samples) < 6 {
					samples = append(samples, map[string]any{"obligation": o.Name, "desc": o.Desc, "solver": r.Solver, "seconds": round3(r.Seconds), "query_bytes": len(o.Query(false))})
				}
				records = append(records, rec)
				continue
			}
			// failed: known finding?
			handled := false
			for k, f := range fnd {
				if f.Obligation != o.Name || f.Property != pid {
					continue
				}
				w := rep.Witness[k]
				if w == "true" {
					handled = true
				} else {
					o2 := *o
					o2.Name = o.Name + ".outside-known-region"
					o2.Goal = Implies(Not(w), o.Goal)
					r2 := Solve(&o2, timeout, confirm)
					solverTime += r2.Seconds
					if r2.Status == "unsat" {
						handled = true
						backends[r2.Solver]++
					}
				}
				if handled {
					knownLines = append(knownLines, fmt.Sprintf("KNOWN-FINDING: property=%s %s [%s]", pid, f.What, o.Name))
					rec.Status = "known-finding"
					rec.Note = f.What
					if o.Bounded != "" {
						nBoundedOK++
					} else {
						nDischarged++
					}
					break
				}
			}
			if handled {
				records = append(records, rec)
				continue
			}
			exit = 1
			rp := tryReplay(eng, rep, o, r, pid)
			line := fmt.Sprintf("VIOLATION property=%s replay=%s", pid, rp.path)
			if !rp.reproduced {
				line += " no-failing-input-found"
			}
			violLines = append(violLines, line)
			rec.Note = rp.note
			records = append(records, rec)
			if *verbose {
				fmt.Fprintf(os.Stderr, "FAILED %s (%s) %s\n  %s\n  %v %v\n", o.Name, r.Status, o.Pos, o.Desc, r.Tried, r.Errors)
			}
		}
	}
	if len(violLines) > 0 {
		exit = 1
	}
	for _, l := range knownLines {
		fmt.Println(l)
	}
	for _, l := range undecided {
		fmt.Println("UNDECIDED:", l)
	}
	for _, l := range violLines {
		fmt.Println(l)
	}
	wall := time.Since(t0).Seconds()
	asm := append([]string{}, trustedBase...)
	for a := range assumptions {
		asm = append(asm, a)
	}
	sort.Strings(asm)
	unm := []string{}
	for a := range unmodelled {
		unm = append(unm, a)
	}
	sort.Strings(unm)
	if len(samples) == 0 {
		samples = append(samples, map[string]any{"note": "no obligation discharged"})
	}
	ev := map[string]any{
		"property_id": pid,
		"tier":        *tier,
		"seed":        seed,
		"level":       "proof",
		"wall_s":      round3(wall),
		"violations":  len(violLines),
		"coverage": map[string]any{
			"obligations":              nProof,
			"discharged":               nDischarged,
			"checker_cmd":              "vf check " + pid + " --tier " + *tier + "  (VC generation over go/ssa of /repo's working tree; z3-new 5.1.0 | cvc5 1.0.x | z3 4.8.12 portfolio, per-obligation timeout " + strconv.Itoa(timeout) + "s)",
			"trusted_base":             trustedBase,
			"functions_under_contract": funcs,
			"bounded_obligations":      nBounded,
			"bounded_discharged":       nBoundedOK,
			"vacuity_probes":           nVac,
			"vacuity_probes_ok":        nVacOK,
			"backends":                 backends,
			"solver_seconds":           round3(solverTime),
			"load_seconds":             round3(loadS),
			"vcgen_seconds":            round3(genS),
			"samples":                  samples,
			"obligation_records":       records,
			"unmodelled_calls":         unm,
			"undecided":                undecided,
			"known_findings":           knownLines,
			"deferred_preconditions":   keys(deferred),
			"contract_files":           relFiles(eng),
			"explanation":              explanationFor(pid),
		},
		"assumptions": asm,
	}
	if err := writeEvidence(pid, ev); err != nil {
		fmt.Fprintln(os.Stderr, "evidence:", err)
		return 2
	}
	fmt.Fprintf(os.Stderr, "%s: %d/%d obligations discharged (+%d/%d bounded, %d/%d vacuity probes), %d known findings, %d violations, %.1fs\n",
		pid, nDischarged, nProof, nBoundedOK, nBounded, nVacOK, nVac, len(knownLines), len(violLines), wall)
	if nProof == 0 && nBounded == 0 {
		fmt.Fprintln(os.Stderr, "no obligations generated: refusing to report success")
		return 2
	}
	return exit
}

var trustedBase = []string{
	"golang.org/x/tools v0.29.0 go/packages + go/ssa build SSA faithful to the compiler; vf's encoding of the SSA instruction set",
	"SMT solvers z3 5.1.0 / z3 4.8.12 / cvc5 1.0 (thorough tier: a second solver must confirm every unsat)",
	"integers are 64/32-bit machine integers (explicit wrap-around); floats are {NaN,+Inf,-Inf,finite real} with exact real arithmetic on finite values (rounding NOT modelled); strings are an ordered uninterpreted domain",
	"goroutine interleaving is not modelled (lock-protected state is havocked at acquisition in INT mode only)",
	"termination is not claimed except where a decreases clause is listed",
}

func explanationFor(pid string) string {
	return "contract-based deductive verification: contracts in /repo/**/verif_contracts.go (build tag verif) are turned into verification conditions over the SSA of the real functions and discharged by SMT; see DESIGN.md section for " + pid
}

func relFiles(e *Engine) []string {
	var out []string
	for _, f := range e.specs.Files {
		r, err := filepath.Rel(e.root, f)
		if err != nil {
			r = f
		}
		out = append(out, r)
	}
	sort.Strings(out)
	return out
}

func round3(f float64) float64 { return float64(int(f*1000+0.5)) / 1000 }

func outRoot() string {
	if d := os.Getenv("VF_OUT"); d != "" {
		return d
	}
	return verifRoot
}

func writeEvidence(pid string, ev map[string]any) error {
	dir := filepath.Join(outRoot(), "evidence")
	if err := os.MkdirAll(dir, 0o755); err != nil {
		return err
	}
	data, err := json.MarshalIndent(ev, "", " ")
	if err != nil {
		return err
	}
	return os.WriteFile(filepath.Join(dir, pid+".json"), data, 0o644)
}

func writeReplayFile(pid, ob string, content map[string]any) string {
	dir := filepath.Join(outRoot(), "replays", pid)
	os.MkdirAll(dir, 0o755)
	p := filepath.Join(dir, sanitize(ob)+".json")
	content["property"] = pid
	data, _ := json.MarshalIndent(content, "", " ")
	os.WriteFile(p, data, 0o644)
	return p
}

func cmdList(args []string) int {
	eng, err := LoadEngine(repoRoot())
	if err != nil {
		fmt.Fprintln(os.Stderr, err)
		return 2
	}
	var ks []string
	for k := range eng.specs.Funcs {
		ks = append(ks, k)
	}
	sort.Strings(ks)
	for _, k := range ks {
		s := eng.specs.Funcs[k]
		_, ok := eng.funcByKey[k]
		fmt.Printf("%-80s %v exists=%v\n", k, s.Props, ok)
	}
	return 0
}

func cmdDump(args []string) int {
	eng, err := LoadEngine(repoRoot())
	if err != nil {
		fmt.Fprintln(os.Stderr, err)
		return 2
	}
	for k, fn := range eng.funcByKey {
		if len(args) == 0 || strings.Contains(k, args[0]) {
			fmt.Println("==", k)
			fn.WriteTo(os.Stdout)
		}
	}
	return 0
}

// vf baseline: records the names of loop-carried and address-taken locals of every function under contract on the
// current tree (run on the unchanged tree and committed; used only to survive pure renames of locals).
func cmdBaseline(args []string) int {
	eng, err := LoadEngine(repoRoot())
	if err != nil {
		fmt.Fprintln(os.Stderr, err)
		return 2
	}
	out := map[string]*fnNames{}
	for k := range eng.specs.Funcs {
		fn := eng.funcByKey[k]
		if fn == nil {
			continue
		}
		out[eng.funcName(fn)] = eng.collectNames(fn)
		for _, an := range fn.AnonFuncs {
			out[eng.funcName(an)] = eng.collectNames(an)
		}
	}
	data, _ := json.MarshalIndent(out, "", " ")
	os.MkdirAll(filepath.Join(verifRoot, "baseline"), 0o755)
	if err := os.WriteFile(filepath.Join(verifRoot, "baseline", "names.json"), data, 0o644); err != nil {
		fmt.Fprintln(os.Stderr, err)
		return 2
	}
	fmt.Println("baseline names for", len(out), "functions")
	return 0
}

// clauseLabelOf: "pkg.F#post.label~2" -> "label"; "pkg.F#step.send.ch.label" -> "label"
func clauseLabelOf(name string) string {
	i := strings.Index(name, "#")
	if i < 0 {
		return ""
	}
	rest := name[i+1:]
	if t := strings.Index(rest, "~"); t >= 0 {
		rest = rest[:t]
	}
	if d := strings.LastIndex(rest, "."); d >= 0 {
		return rest[d+1:]
	}
	return ""
}
