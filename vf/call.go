package main

import (
	"fmt"
	"go/token"
	"go/types"
	"os"
	"sort"
	"strings"

	"golang.org/x/tools/go/ssa"
)

// call handles every call instruction.  instr is nil for deferred calls.
func (c *FnCtx) call(fr *Frame, st *State, call *ssa.CallCommon, instr *ssa.Call, pos token.Pos) *Val {
	var args []Val
	for _, a := range call.Args {
		args = append(args, c.val(fr, a))
	}
	resT := call.Signature().Results()
	var res *Val
	switch {
	case isBuiltin(call.Value):
		res = c.builtin(fr, st, call.Value.(*ssa.Builtin), args, call, pos)
	case call.IsInvoke():
		recv := c.val(fr, call.Value)
		res = c.invoke(fr, st, recv, call.Method, args, pos)
	default:
		fv := c.val(fr, call.Value)
		switch {
		case fv.Cancel:
			h := c.cancelComp()
			c.heapSet(st, h, "(store "+c.heapGet(st, h)+" "+fv.E+" true)")
		case fv.Clo != nil:
			res = c.callFunc(fr, st, fv.Clo.Fn, fv.Clo.Bindings, args, pos)
		default:
			res = c.callUnknown(fr, st, fv, call.Value.Type(), args, resT, pos)
		}
	}
	return res
}

func isBuiltin(v ssa.Value) bool { _, ok := v.(*ssa.Builtin); return ok }

func tupleVal(resT *types.Tuple, vs []Val) *Val {
	switch resT.Len() {
	case 0:
		return nil
	case 1:
		v := vs[0]
		return &v
	}
	return &Val{T: resT, Tuple: vs}
}

func (c *FnCtx) builtin(fr *Frame, st *State, b *ssa.Builtin, args []Val, call *ssa.CallCommon, pos token.Pos) *Val {
	switch b.Name() {
	case "len":
		x := args[0]
		switch xt := x.T.Underlying().(type) {
		case *types.Slice:
			if x.E == nilSlice {
				return &Val{T: types.Typ[types.Int], E: "0"}
			}
			if l, ok := c.sliceLen[x.E]; ok {
				return &Val{T: types.Typ[types.Int], E: l}
			}
			lt := c.sc.Define("len", sInt, "(s-len "+x.E+")")
			if ub, ok := c.intUB["(s-len "+x.E+")"]; ok {
				c.intUB[lt] = ub
			}
			return &Val{T: types.Typ[types.Int], E: lt}
		case *types.Basic:
			return &Val{T: types.Typ[types.Int], E: c.sc.Define("len", sInt, "(strlen "+x.E+")")}
		case *types.Map:
			_, _, ln := c.mapHeaps(xt)
			c.eng.onMapRead(c, st, x.E, pos)
			e := c.sc.Define("len", sInt, Ite("(= "+x.E+" 0)", "0", "(select "+c.heapGet(st, ln)+" "+x.E+")"))
			c.assume(st, "(>= "+e+" 0)")
			return &Val{T: types.Typ[types.Int], E: e}
		case *types.Chan:
			r := c.fresh("chanlen", types.Typ[types.Int], st)
			c.assume(st, "(>= "+r.E+" 0)")
			return &r
		}
	case "cap":
		if _, ok := args[0].T.Underlying().(*types.Slice); ok {
			return &Val{T: types.Typ[types.Int], E: c.sc.Define("cap", sInt, "(s-cap "+args[0].E+")")}
		}
	case "append":
		if len(args) == 2 {
			if args[1].E == nilSlice {
				return &args[0]
			}
			r := c.appendSlice(st, args[0], args[1], pos)
			return &r
		}
	case "copy":
		r := c.copySlice(st, args[0], args[1], pos)
		return &r
	case "delete":
		mt := args[0].T.Underlying().(*types.Map)
		c.onMapDelete(fr, st, args[0], args[1], pos)
		c.eng.onMapWrite(c, st, args[0].E, pos)
		// delete on a nil map is a no-op
		c.guarded(st, "(not (= "+args[0].E+" 0))", func(gs *State) { c.mapDelete(gs, mt, args[0].E, args[1].E) })
		return nil
	case "close":
		c.chanClose(fr, st, args[0], pos)
		return nil
	case "panic":
		o := c.obligation(st, "safe", "panic", "false", pos)
		o.Desc = "explicit panic reachable"
		return nil
	case "print", "println":
		return nil
	case "min", "max":
		if len(args) == 2 && c.ty.SortOf(args[0].T) == sInt {
			op := "<"
			if b.Name() == "max" {
				op = ">"
			}
			return &Val{T: args[0].T, E: c.sc.Define(b.Name(), sInt, "(ite ("+op+" "+args[0].E+" "+args[1].E+") "+args[0].E+" "+args[1].E+")")}
		}
	case "ssa:wrapnilchk":
		c.nilCheck(st, args[0].E, pos)
		return &args[0]
	}
	c.unsupported("builtin %s", b.Name())
	return nil
}

// callFunc: statically known callee (function, method or closure).
func (c *FnCtx) callFunc(fr *Frame, st *State, fn *ssa.Function, bindings []Val, args []Val, pos token.Pos) *Val {
	r := c.callFuncInner(fr, st, fn, bindings, args, pos)
	if r != nil && c.isTracked(fn) && c.eng.specOf(fn) == nil {
		// lastcall(F) is also available for tracked callees without a contract (inlined or library functions)
		nv := *r
		if prev, ok := c.lastCall[fn.Name()]; ok && st.guard != "true" {
			nv = c.iteVal(st.guard, nv, prev)
		}
		c.lastCall[fn.Name()] = nv
		c.recordResult(st, fn.Name(), r)
	}
	return r
}

func (c *FnCtx) callFuncInner(fr *Frame, st *State, fn *ssa.Function, bindings []Val, args []Val, pos token.Pos) *Val {
	resT := fn.Signature.Results()
	if c.isTracked(fn) {
		c.trackCall(st, fn, args)
	}
	// generic instantiation wrappers etc. fall through to the generic paths
	if spec := c.eng.specOf(fn); spec != nil && !spec.Inline && !(fn == c.fn && fr.parent == nil) {
		return c.callWithContract(fr, st, fn, spec, args, pos)
	}
	if pm := c.eng.preludeFor(fn); pm != nil {
		c.assumed["library contract: "+c.eng.funcName(fn)] = true
		return pm(c, fr, st, fn, args, pos)
	}
	if c.eng.inlinable(fn) && fr.depth < c.maxDepth && !c.onStack(fn) {
		c.inlined[c.eng.funcName(fn)] = true
		nf := c.newFrame(fn, fr)
		nf.free = bindings
		nf.args = args
		nf.callPos = pos
		for k, p := range fn.Params {
			a := args[k]
			a.T = p.Type()
			nf.vals[p] = a
		}
		c.stack = append(c.stack, fn)
		rst, rvals := c.execBody(nf, st)
		c.stack = c.stack[:len(c.stack)-1]
		guard := st.guard
		*st = *rst
		if rst.guard == "false" {
			st.guard = "false"
		} else {
			// the callee's return guard is the caller's guard minus the paths that panicked (proved unreachable)
			st.guard = guard
			c.assume(st, rst.guard)
		}
		return tupleVal(resT, rvals)
	}
	return c.callOpaque(fr, st, fn, args, pos)
}

func (c *FnCtx) onStack(fn *ssa.Function) bool {
	for _, f := range c.stack {
		if f == fn {
			return true
		}
	}
	return false
}

// callOpaque: a function we can neither inline nor have a contract for.
func (c *FnCtx) callOpaque(fr *Frame, st *State, fn *ssa.Function, args []Val, pos token.Pos) *Val {
	name := c.eng.funcName(fn)
	resT := fn.Signature.Results()
	if c.eng.isPureLib(fn) {
		// deterministic, heap-independent library function: uninterpreted function of its arguments
		c.assumed["pure library function (uninterpreted): "+name] = true
		return c.uninterp(st, "lib$"+name, args, resT)
	}
	c.unmodelled[name] = true
	m := newModSet()
	c.funcMods(fn, m, 0)
	if c.eng.noHeapEffect(fn) {
		m = newModSet()
		m.alloc = true
	}
	c.eng.onOpaqueCall(c, st, name, args, pos)
	c.havocSet(st, m, "call$"+fn.Name())
	var vs []Val
	for k := 0; k < resT.Len(); k++ {
		vs = append(vs, c.fresh("ret$"+fn.Name(), resT.At(k).Type(), st))
	}
	return tupleVal(resT, vs)
}

func (c *FnCtx) uninterp(st *State, fname string, args []Val, resT *types.Tuple) *Val {
	var as, sorts []string
	for _, a := range args {
		if a.E == "" && a.Loc != nil {
			a.E = c.ptrTerm(a)
		}
		as = append(as, a.E)
		sorts = append(sorts, c.ty.SortOf(a.T))
	}
	var vs []Val
	for k := 0; k < resT.Len(); k++ {
		rt := resT.At(k).Type()
		f := q(fmt.Sprintf("%s$%d", fname, k))
		if !c.sc.HasDecl("uf:"+f) && len(sorts) > 0 {
			// the result's type invariant (a string is a non-negative id, a slice is well formed, ...) holds for every
			// application, also for those that only occur in specifications
			var vs, ds []string
			for i, srt := range sorts {
				v := fmt.Sprintf("a%d", i)
				vs = append(vs, v)
				ds = append(ds, "("+v+" "+srt+")")
			}
			app := App(f, vs...)
			if inv := c.ty.Inv(rt, app); inv != "true" {
				c.sc.Decl("uf:"+f, fmt.Sprintf("(declare-fun %s (%s) %s)", f, strings.Join(sorts, " "), c.ty.SortOf(rt)))
				c.sc.Decl("ufinv:"+f, fmt.Sprintf("(assert (forall (%s) (! %s :pattern (%s))))", strings.Join(ds, " "), inv, app))
			}
		}
		c.sc.Decl("uf:"+f, fmt.Sprintf("(declare-fun %s (%s) %s)", f, strings.Join(sorts, " "), c.ty.SortOf(rt)))
		e := App(f, as...)
		if st != nil {
			e = c.sc.Define("uf", c.ty.SortOf(rt), e) // in specifications (st == nil) the term may mention bound variables
		}
		if len(as) == 0 {
			e = f
		}
		if st != nil {
			c.assumeLoaded(st, rt, e)
		}
		vs = append(vs, Val{T: rt, E: e})
	}
	return tupleVal(resT, vs)
}

// callWithContract: modular call — assert requires, havoc modifies, assume ensures.
func (c *FnCtx) callWithContract(fr *Frame, st *State, fn *ssa.Function, spec *FuncSpec, args []Val, pos token.Pos) *Val {
	name := c.eng.funcName(fn)
	resT := fn.Signature.Results()
	c.callSeq++
	env := c.newEnv(fr, st, st)
	env.names = map[string]Val{}
	env.specPkg = spec.Pkg
	c.bindParams(env, fn, spec, args)
	pre := st.clone()
	for k, r := range spec.Requires {
		if r.Mode != "" && r.Mode != c.mode {
			continue
		}
		g := c.evalBool(env, r.E)
		o := c.obligation(st, "call", fmt.Sprintf("%s.pre.%s", shortFn(name), clauseName(r, k)), g, pos)
		o.Desc = "precondition of " + name + ": " + r.Text
		o.OwnerProps = spec.Props
		if cp, ok := spec.ClauseProps[r.Label]; ok && r.Label != "" {
			o.OwnerProps = cp // a precondition tagged [name@Cxx] is an obligation of those properties only
		}
		c.assume(st, g)
	}
	if spec.Trusted {
		c.assumed["trusted contract (body not verified): "+name] = true
	}
	var preProbe *Obligation
	if !c.sc.pure && (len(spec.Ensures) > 0 || len(spec.Trusts) > 0) {
		preProbe = c.obligation(st, "vacuity", "before-call."+shortFn(name), "true", pos)
		preProbe.Expect = "sat"
		preProbe.Goal = st.guard
		preProbe.Optional = true
		preProbe.Desc = "call site reachable"
	}
	m := newModSet()
	c.funcMods(fn, m, 0)
	if os.Getenv("VF_DEBUG") != "" {
		var ks []string
		for k := range m.comps {
			if strings.HasPrefix(k, "ghost$") {
				ks = append(ks, k)
			}
		}
		fmt.Fprintf(os.Stderr, "mods of %s: all=%v ghost=%v\n", name, m.all, ks)
	}
	c.havocSet(st, m, "call$"+fn.Name())
	// the callback log is append-only: whatever the callee logged, earlier entries are as they were
	if pc, ok := pre.heap[c.cbCallsComp()]; ok || true {
		_ = pc
		n0 := c.heapGet(pre, c.cbCallsComp())
		n1 := c.heapGet(st, c.cbCallsComp())
		if n0 != n1 {
			c.sc.Assume("(>= " + n1 + " " + n0 + ")")
			for _, k := range c.eng.compOrder {
				if k == "ghost$cbfn" || k == "ghost$cblock" || k == "ghost$cblockgen" || strings.HasPrefix(k, "ghost$cbres$") || strings.HasPrefix(k, "ghost$cbarg$") {
					h0, h1 := c.heapGet(pre, k), c.heapGet(st, k)
					if h0 != h1 {
						c.sc.Assume(fmt.Sprintf("(forall ((i Int)) (! (=> (< i %s) (= (select %s i) (select %s i))) :pattern ((select %s i))))", n0, h1, h0, h1))
					}
				}
			}
		}
	}
	if om := c.objMods(fn, spec, args); om != nil {
		// object-level modifies: in these components only the named objects may have changed
		var comps []string
		for comp := range om {
			comps = append(comps, comp)
		}
		sort.Strings(comps)
		for _, comp := range comps {
			if _, ok := c.eng.comps[comp]; !ok {
				continue
			}
			h0, h1 := c.heapGet(pre, comp), c.heapGet(st, comp)
			if h0 == h1 {
				continue
			}
			c.sc.Assume(fmt.Sprintf("(forall ((r Int)) (! (=> %s (= (select %s r) (select %s r))) :pattern ((select %s r))))", exceptObjs("r", om[comp]), h1, h0, h1))
		}
	}
	var vs []Val
	for k := 0; k < resT.Len(); k++ {
		vs = append(vs, c.fresh("ret$"+fn.Name(), resT.At(k).Type(), st))
	}
	env2 := c.newEnv(fr, st, pre)
	env2.names = env.names
	env2.specPkg = spec.Pkg
	for k, rn := range spec.Results {
		if k < len(vs) {
			env2.names[rn] = vs[k]
		}
	}
	if len(vs) == 1 {
		env2.names["result"] = vs[0]
	}
	c.tryBindLets(env2, spec)
	for _, e := range spec.Ensures {
		if e.Mode != "" && e.Mode != c.mode {
			continue
		}
		if g, ok := c.tryEvalBool(env2, e.E); ok {
			c.assume(st, g)
		}
	}
	for _, e := range spec.Trusts {
		c.assume(st, c.evalBool(env2, e.E))
		c.assumed["trusted postcondition of "+name+": "+e.Text] = true
	}
	if preProbe != nil && !c.sc.pure {
		// vacuity guard: the callee's postconditions must not make a reachable call site unreachable (a contradictory
		// assumed contract would discharge everything after the call for free)
		post := c.obligation(st, "vacuity", "after-call."+shortFn(name), "true", pos)
		post.Expect = "sat"
		post.Goal = st.guard
		post.PairPre = preProbe
		post.Desc = "the postconditions assumed for " + name + " are consistent with the state at this call"
	}
	if r := tupleVal(resT, vs); r != nil {
		nv := *r
		if prev, ok := c.lastCall[fn.Name()]; ok && st.guard != "true" {
			// the most recent call *on the path taken*: an earlier call stays the last one where this one is not reached
			nv = c.iteVal(st.guard, nv, prev)
		}
		c.lastCall[fn.Name()] = nv
		if c.isTracked(fn) {
			c.recordResult(st, fn.Name(), r)
		}
	}
	return tupleVal(resT, vs)
}

func (c *FnCtx) iteVal(g string, a, b Val) Val {
	if len(a.Tuple) > 0 && len(a.Tuple) == len(b.Tuple) {
		out := Val{T: a.T}
		for k := range a.Tuple {
			out.Tuple = append(out.Tuple, c.iteVal(g, a.Tuple[k], b.Tuple[k]))
		}
		return out
	}
	if a.E == "" || b.E == "" {
		return a
	}
	return Val{T: a.T, E: c.sc.Define("last", c.ty.SortOf(a.T), Ite(g, a.E, b.E))}
}

func shortFn(name string) string {
	if k := strings.LastIndex(name, "/"); k >= 0 {
		name = name[k+1:]
	}
	return name
}

func (c *FnCtx) bindParams(env *Env, fn *ssa.Function, spec *FuncSpec, args []Val) {
	params := fn.Params
	names := spec.Params
	off := 0
	if fn.Signature.Recv() != nil && len(params) > 0 {
		a := args[0]
		a.T = params[0].Type()
		env.names["recv"] = a
		off = 1
	}
	for k, n := range names {
		if off+k < len(args) {
			a := args[off+k]
			a.T = params[off+k].Type()
			env.names[n] = a
		}
	}
	// free variables of closures by their source names
	for k, fv := range fn.FreeVars {
		if env.freeBind != nil && k < len(env.freeBind) {
			env.names["&"+fv.Name()] = env.freeBind[k]
		}
	}
}

// tryBindLets: at a call site, lets that talk about the callee's internal ghost handles (lastarg of a call the caller
// does not track, locals of the callee) have no meaning; they stay unbound and the clauses using them are skipped.
func (c *FnCtx) tryBindLets(env *Env, spec *FuncSpec) {
	for _, l := range spec.Lets {
		func() {
			defer func() {
				if r := recover(); r != nil {
					if _, isSpec := r.(specError); isSpec {
						return
					}
					panic(r)
				}
			}()
			e2 := *env
			if l.Old {
				e2.st = env.old
			}
			env.names[l.Name] = c.eval(&e2, l.E)
		}()
	}
}

func (c *FnCtx) bindLets(env *Env, spec *FuncSpec) {
	for _, l := range spec.Lets {
		e2 := *env
		if l.Old {
			e2.st = env.old
		}
		env.names[l.Name] = c.eval(&e2, l.E)
	}
}

// callUnknown: a function value of unknown identity (callback).
func (c *FnCtx) callUnknown(fr *Frame, st *State, fv Val, ft types.Type, args []Val, resT *types.Tuple, pos token.Pos) *Val {
	o := c.obligation(st, "safe", "nilfunc", "(not (= "+fv.E+" 0))", pos)
	o.Desc = "call of nil function value"
	c.assume(st, "(not (= "+fv.E+" 0))")
	if cb := c.eng.callbackSpecFor(ft, fv.From); cb == nil || !cb.Pure {
		if r, ok := c.dispatchClosure(fr, st, fv, ft, args, resT, pos); ok {
			return r
		}
	}
	return c.callUnknownOpaque(fr, st, fv, ft, args, resT, pos)
}

// pureArgs: a pure callback sees a message through its content, not its address (two Equal messages give the same answer)
func (c *FnCtx) pureArgs(st *State, args []Val) []Val {
	out := make([]Val, len(args))
	for k, a := range args {
		out[k] = a
		if isProtoMessageIface(a.T) && st != nil {
			t := "(mk-iface (i-tag " + a.E + ") " + c.msgVal(st, "(i-val "+a.E+")") + ")"
			if strings.Contains(a.E, "q$") {
				out[k] = Val{T: a.T, E: t} // mentions a bound variable of a quantified spec expression: no definition
			} else {
				out[k] = Val{T: a.T, E: c.sc.Define("msgarg", sIface, t)}
			}
		}
	}
	return out
}

func isProtoMessageIface(t types.Type) bool {
	it, ok := t.Underlying().(*types.Interface)
	if !ok {
		return false
	}
	for i := 0; i < it.NumMethods(); i++ {
		if it.Method(i).Name() == "ProtoReflect" {
			return true
		}
	}
	return false
}

func (c *FnCtx) callUnknownOpaque(fr *Frame, st *State, fv Val, ft types.Type, args []Val, resT *types.Tuple, pos token.Pos) *Val {
	cb := c.eng.callbackSpecFor(ft, fv.From)
	if cb != nil && cb.Pure {
		c.assumed["callback "+cb.Name+" is a deterministic function of its arguments (messages by content)"] = true
		all := append([]Val{{T: ft, E: fv.E}}, c.pureArgs(st, args)...)
		r := c.uninterp(st, "cb$"+cb.Name, all, resT)
		c.eng.onCallback(c, st, cb, fv, args, pos)
		return r
	}
	m := newModSet()
	if cb != nil {
		m.union(c.eng.patternMods(c, cb.Modifies))
		m.alloc = true
		c.assumed["callback "+cb.Name+" writes only: "+strings.Join(cb.Modifies, ",")] = true
	} else {
		m.all = true
		c.unmodelled["callback of type "+shortTypeName(ft)] = true
	}
	n := c.sc.Define("cbn", sInt, c.heapGet(st, c.cbCallsComp()))
	lockAtCall := c.sc.Define("cblk", "(Array Int Int)", c.heapGet(st, c.lockComp()))
	genAtCall := c.sc.Define("cbgen", "(Array Int Int)", c.heapGet(st, c.lockGenComp()))
	c.eng.onCallback(c, st, cb, fv, args, pos)
	c.havocSet(st, m, "cb")
	if cb != nil {
		// the abstract content of exactly the messages the callback is allowed to write becomes unknown
		for _, k := range cb.Writes {
			if k < len(args) && c.ty.SortOf(args[k].T) == sIface {
				mh := c.msgHeap()
				c.heapSet(st, mh, "(store "+c.heapGet(st, mh)+" (i-val "+args[k].E+") "+c.sc.Fresh("cbwrote", sInt)+")")
				c.eng.onMessageWrite(c, st, args[k], "callback "+cb.Name, pos)
			}
		}
	}
	var vs []Val
	for k := 0; k < resT.Len(); k++ {
		vs = append(vs, c.fresh("cbret", resT.At(k).Type(), st))
	}
	// ghost call log: which function value was called n-th, with which (interface-typed) arguments, what it returned,
	// and which locks were held (and in which acquisition) when it was called
	fh := c.comp("ghost$cbfn", "(Array Int Int)")
	c.heapSet(st, fh, "(store "+c.heapGet(st, fh)+" "+n+" "+fv.E+")")
	lh := c.comp("ghost$cblock", "(Array Int (Array Int Int))")
	c.heapSet(st, lh, "(store "+c.heapGet(st, lh)+" "+n+" "+lockAtCall+")")
	gh := c.comp("ghost$cblockgen", "(Array Int (Array Int Int))")
	c.heapSet(st, gh, "(store "+c.heapGet(st, gh)+" "+n+" "+genAtCall+")")
	for k, a := range args {
		if c.ty.SortOf(a.T) != sIface {
			continue
		}
		ah := c.comp(fmt.Sprintf("ghost$cbarg$Iface$%d", k), "(Array Int Iface)")
		c.heapSet(st, ah, "(store "+c.heapGet(st, ah)+" "+n+" "+a.E+")")
	}
	for k, v := range vs {
		srt := c.ty.SortOf(v.T)
		if srt != sInt && srt != sBool && srt != sIface {
			continue
		}
		rh := c.comp(fmt.Sprintf("ghost$cbres$%s$%d", srt, k), "(Array Int "+srt+")")
		c.heapSet(st, rh, "(store "+c.heapGet(st, rh)+" "+n+" "+v.E+")")
	}
	return tupleVal(resT, vs)
}

// invoke: interface method call.
func (c *FnCtx) invoke(fr *Frame, st *State, recv Val, m *types.Func, args []Val, pos token.Pos) *Val {
	r := c.invokeInner(fr, st, recv, m, args, pos)
	if r != nil && c.spec != nil {
		for _, t := range c.spec.Track {
			if t == m.Name() {
				// lastcall(M) for a tracked interface method: the result of the latest call on the path taken
				nv := *r
				if prev, ok := c.lastCall[m.Name()]; ok && st.guard != "true" {
					nv = c.iteVal(st.guard, nv, prev)
				}
				c.lastCall[m.Name()] = nv
				c.recordResult(st, m.Name(), r)
			}
		}
	}
	return r
}

func (c *FnCtx) invokeInner(fr *Frame, st *State, recv Val, m *types.Func, args []Val, pos token.Pos) *Val {
	sig := m.Type().(*types.Signature)
	resT := sig.Results()
	if c.spec != nil {
		for _, t := range c.spec.Track {
			if t == m.Name() {
				// `track M` also counts interface method calls named M (the ghost log has no arguments for them)
				cnt := c.comp("ghost$calls$"+m.Name(), "Int")
				c.heapSet(st, cnt, "(+ "+c.heapGet(st, cnt)+" 1)")
				// latest arguments (argument 0 is the receiver, as for static callees)
				for k, a := range append([]Val{recv}, args...) {
					if a.E == "" {
						continue
					}
					name := fmt.Sprintf("ghost$arg$%s$%d", m.Name(), k)
					c.comp(name, c.ty.SortOf(a.T), a.T)
					c.trackArgT[name] = a.T
					st.heap[name] = c.sc.Define(name, c.ty.SortOf(a.T), a.E)
				}
			}
		}
	}
	c.guardInvoke(st, recv, m, pos)
	o := c.obligation(st, "safe", "nilinvoke", "(not (= (i-tag "+recv.E+") 0))", pos)
	o.Desc = "method call on nil interface value"
	c.assume(st, "(not (= (i-tag "+recv.E+") 0))")
	if isProtoreflectType(recv.T) && m.Name() == "New" && shortTypeName(recv.T) == "protoreflect.Message" {
		// m.New(): a fresh, empty message of the same type; its Interface() is a fresh Go message value
		c.assumed["protoreflect Message.New() returns a fresh empty message of the same type"] = true
		ref := c.newRef(st, "newmsg")
		c.nonNil[ref] = true
		fI := q("inv$protoreflect.Message.Interface$0")
		c.sc.Decl("uf:"+fI, "(declare-fun "+fI+" (Iface) Iface)")
		c.sc.Decl("emptyval", "(declare-fun |emptyval| (Int) Int)")
		nm := c.fresh("newpref", recv.T, st)
		c.assume(st, "(not (= (i-tag "+nm.E+") 0))")
		tag := "(i-tag (" + fI + " " + recv.E + "))"
		c.assume(st, "(= ("+fI+" "+nm.E+") (mk-iface "+tag+" "+ref+"))")
		mh := c.msgHeap()
		c.heapSet(st, mh, "(store "+c.heapGet(st, mh)+" "+ref+" (|emptyval| "+tag+"))")
		c.freshMsgs[nm.E] = ref
		return &nm
	}
	if isProtoreflectType(recv.T) && m.Name() == "Interface" {
		r := c.uninterp(st, "inv$"+shortTypeName(recv.T)+"."+m.Name(), append([]Val{recv}, args...), resT)
		if ref, ok := c.freshMsgs[recv.E]; ok {
			r.FreshFrom = ref
		}
		return r
	}
	if isProtoreflectType(recv.T) {
		// protoreflect accessors are read-only views: deterministic functions of the receiver (assumed)
		c.assumed["protoreflect accessors are pure functions of their receiver"] = true
		return c.uninterp(st, "inv$"+shortTypeName(recv.T)+"."+m.Name(), append([]Val{recv}, args...), resT)
	}
	if pm := c.eng.preludeInvoke(recv.T, m); pm != nil {
		c.assumed["library contract: "+shortTypeName(recv.T)+"."+m.Name()] = true
		return pm(c, fr, st, recv, m, args, pos)
	}
	if cb := c.eng.callbackSpecFor(nil, shortIfaceName(recv.T)+"."+m.Name()); cb != nil {
		// a method of an open interface with a declared footprint
		if cb.Pure {
			c.assumed["interface method "+cb.Name+" is a deterministic function of its receiver and arguments"] = true
			return c.uninterp(st, "cb$"+cb.Name, append([]Val{recv}, c.pureArgs(st, args)...), resT)
		}
		mm := c.eng.patternMods(c, cb.Modifies)
		mm.alloc = true
		c.assumed["interface method "+cb.Name+" writes only: "+strings.Join(cb.Modifies, ",")] = true
		c.havocSet(st, mm, "inv$"+m.Name())
		var vs []Val
		for k := 0; k < resT.Len(); k++ {
			v := c.fresh("inv$"+m.Name(), resT.At(k).Type(), st)
			if m.Name() == "Context" && typeKey(resT.At(k).Type()) == "context.Context" {
				// a stream's / request's Context() is never nil (gRPC and net/http guarantee it)
				c.assume(st, "(not (= (i-tag "+v.E+") 0))")
				c.assumed["Context() of a stream never returns nil"] = true
			}
			vs = append(vs, v)
		}
		if cb.ValueOrError && len(vs) == 2 && typeKey(resT.At(1).Type()) == "error" {
			// a generated gRPC client stub answers with a usable value or with an error (assumed, listed)
			nonnil := "(not (= " + vs[0].E + " 0))"
			if c.ty.SortOf(vs[0].T) == sIface {
				nonnil = "(not (= (i-tag " + vs[0].E + ") 0))"
			}
			c.assume(st, "(or (not (= (i-tag "+vs[1].E+") 0)) "+nonnil+")")
			c.assumed["interface method "+cb.Name+" returns a non-nil value whenever it returns no error"] = true
		}
		return tupleVal(resT, vs)
	}
	impls := c.eng.implementers(recv.T)
	if len(impls) == 0 || len(impls) > 8 {
		c.unmodelled["interface method "+shortTypeName(recv.T)+"."+m.Name()] = true
		mm := newModSet()
		mm.all = true
		c.eng.onOpaqueCall(c, st, shortTypeName(recv.T)+"."+m.Name(), append([]Val{recv}, args...), pos)
		c.havocSet(st, mm, "invoke")
		var vs []Val
		for k := 0; k < resT.Len(); k++ {
			vs = append(vs, c.fresh("inv$"+m.Name(), resT.At(k).Type(), st))
		}
		return tupleVal(resT, vs)
	}
	// closed-world dispatch over the implementers defined in the module
	type branch struct {
		guard string
		st    *State
		res   *Val
	}
	var brs []branch
	var tagConds []string
	for _, it := range impls {
		id := c.ty.TypeID(it)
		cond := fmt.Sprintf("(= (i-tag %s) %d)", recv.E, id)
		tagConds = append(tagConds, cond)
		ms := c.eng.prog.MethodSets.MethodSet(it)
		sel := ms.Lookup(m.Pkg(), m.Name())
		if sel == nil {
			continue
		}
		mf := c.eng.prog.MethodValue(sel)
		bs := st.clone()
		bs.guard = c.sc.Define("g", sBool, And(st.guard, cond))
		rv := Val{T: it, E: c.sc.Define("rcv", c.ty.SortOf(it), c.unboxed(it, "(i-val "+recv.E+")"))}
		if ix := sel.Index(); len(ix) > 1 {

			// method promoted from embedded struct values: call the declared method on the embedded value
			// (go/ssa would route this through a synthetic wrapper)
			cur, ok := rv, true
			for _, fi := range ix[:len(ix)-1] {
				stt, isS := cur.T.Underlying().(*types.Struct)
				if !isS || !isStructVal(cur.T) {
					ok = false
					break
				}
				si := c.ty.structInfoOf(cur.T)
				ft := stt.Field(fi).Type()
				cur = Val{T: ft, E: c.sc.Define("emb", c.ty.SortOf(ft), App(si.fields[fi], cur.E))}
			}
			if tf, isF := sel.Obj().(*types.Func); ok && isF {
				if decl := c.eng.prog.FuncValue(tf); decl != nil && isStructVal(cur.T) {
					if _, ptrRecv := tf.Type().(*types.Signature).Recv().Type().(*types.Pointer); !ptrRecv {
						mf, rv = decl, cur
					}
				}
			}
		}
		r := c.callFunc(fr, bs, mf, nil, append([]Val{rv}, args...), pos)
		brs = append(brs, branch{cond, bs, r})
	}
	og := c.obligation(st, "safe", "dispatch", Or(tagConds...), pos)
	og.Desc = "dynamic type is one of the module's implementers of " + shortTypeName(recv.T)
	og.Kind = "assumed"
	c.obs = c.obs[:len(c.obs)-1] // closed world is an assumption, not an obligation
	c.assumed["closed world: implementers of "+shortTypeName(recv.T)+" are those defined in the module"] = true
	c.assume(st, Or(tagConds...))
	var ins []edgeIn
	for _, b := range brs {
		ins = append(ins, edgeIn{-1, b.st})
	}
	guard := st.guard
	ms := c.mergeStates(ins)
	*st = *ms
	st.guard = guard
	if resT.Len() == 0 {
		return nil
	}
	n := resT.Len()
	vs := make([]Val, n)
	for k := 0; k < n; k++ {
		var term string
		for bi, b := range brs {
			var bv Val
			if n == 1 {
				bv = *b.res
			} else {
				bv = b.res.Tuple[k]
			}
			if bi == 0 {
				term = bv.E
			} else {
				term = Ite(b.st.guard, bv.E, term)
			}
		}
		t := resT.At(k).Type()
		vs[k] = Val{T: t, E: c.sc.Define("disp", c.ty.SortOf(t), term)}
	}
	return tupleVal(resT, vs)
}

// tryEvalBool evaluates a callee postcondition at a call site; clauses that talk about the callee's internal ghost
// handles (lastcall(...)) have no meaning for the caller and are simply not assumed.
func (c *FnCtx) tryEvalBool(env *Env, e Expr) (g string, ok bool) {
	defer func() {
		if r := recover(); r != nil {
			if se, isSpec := r.(specError); isSpec && (strings.Contains(string(se), "lastcall(") || strings.Contains(string(se), "unknown name") || strings.Contains(string(se), "no tracked call")) {
				ok = false
				return
			}
			panic(r)
		}
	}()
	return c.evalBool(env, e), true
}

// closureTerm turns a loop-free, side-effect-free function value into SMT terms over symbolic parameters:
// it returns the result terms and the conjunction of the safety conditions met inside the body.
func (c *FnCtx) closureTerm(fr *Frame, st *State, clo *Closure, params []Val) (res []Val, safe string) {
	if clo == nil || len(clo.Fn.Blocks) == 0 {
		c.unsupported("function value is not a known closure")
	}
	for _, b := range clo.Fn.Blocks {
		for _, p := range b.Preds {
			if isBackEdge(p, b) {
				c.unsupported("loop inside a closure that must be turned into a term")
			}
		}
	}
	savedPure, savedObs := c.sc.pure, c.pureObs
	c.sc.pure, c.pureObs = true, nil
	defer func() { c.sc.pure, c.pureObs = savedPure, savedObs }()
	nf := c.newFrame(clo.Fn, fr)
	nf.free = clo.Bindings
	for k, p := range clo.Fn.Params {
		a := params[k]
		a.T = p.Type()
		nf.vals[p] = a
	}
	ps := st.clone()
	ps.guard = "true"
	c.stack = append(c.stack, clo.Fn)
	rst, rvals := c.execBody(nf, ps)
	c.stack = c.stack[:len(c.stack)-1]
	// a closure used as a predicate must not write the heap
	for k, v := range rst.heap {
		before, had := st.heap[k]
		if !had {
			before = q(k + "@0")
		}
		if before != v && !strings.HasPrefix(k, "ghost$") {
			c.unsupported("closure %s writes heap component %s", clo.Fn.Name(), k)
		}
	}
	return rvals, And(c.pureObs...)
}

func isProtoreflectType(t types.Type) bool {
	if n, ok := t.(*types.Named); ok && n.Obj().Pkg() != nil {
		return strings.HasSuffix(n.Obj().Pkg().Path(), "reflect/protoreflect")
	}
	return false
}

func shortIfaceName(t types.Type) string {
	if n, ok := t.(*types.Named); ok {
		return n.Obj().Name()
	}
	// aliases (type X = grpc.ServerStreamingServer[T]) and unnamed types: the printed name without its package qualifier
	n := shortTypeName(t)
	if br := strings.Index(n, "["); br >= 0 {
		if k := strings.LastIndex(n[:br], "."); k >= 0 {
			return n[k+1:]
		}
		return n
	}
	if k := strings.LastIndex(n, "."); k >= 0 {
		return n[k+1:]
	}
	return n
}

// objMods: `modifies p.f` where p is a contract parameter (or recv) of pointer-to-struct type names field f of that one
// object.  Returns component -> terms of the objects that may be written, for components that the contract names ONLY
// in this object-level form (a component also named by a type-level pattern stays component-level).
func (c *FnCtx) objMods(fn *ssa.Function, spec *FuncSpec, args []Val) map[string][]string {
	if spec == nil || !spec.HasMod {
		return nil
	}
	idx := map[string]int{}
	off := 0
	if fn.Signature.Recv() != nil && len(fn.Params) > 0 {
		idx["recv"] = 0
		off = 1
	}
	for k, n := range spec.Params {
		idx[n] = off + k
	}
	out := map[string][]string{}
	var rest []string
	for _, p := range spec.Modifies {
		p = strings.TrimSpace(p)
		d := strings.Index(p, ".")
		if d < 0 || strings.Contains(p, "$") {
			rest = append(rest, p)
			continue
		}
		k, ok := idx[p[:d]]
		if !ok || k >= len(fn.Params) || k >= len(args) {
			rest = append(rest, p)
			continue
		}
		pt, ok := fn.Params[k].Type().Underlying().(*types.Pointer)
		if !ok {
			rest = append(rest, p)
			continue
		}
		st, ok := pt.Elem().Underlying().(*types.Struct)
		if !ok {
			rest = append(rest, p)
			continue
		}
		found := false
		for f := 0; f < st.NumFields(); f++ {
			if st.Field(f).Name() == p[d+1:] && !isStructVal(st.Field(f).Type()) {
				comp := fieldComp(pt.Elem(), f)
				out[comp] = append(out[comp], args[k].E)
				found = true
			}
		}
		if !found {
			rest = append(rest, p)
		}
	}
	if len(out) == 0 {
		return nil
	}
	typeLevel := c.eng.patternMods(c, rest)
	for comp := range out {
		if typeLevel.all || typeLevel.comps[comp] {
			delete(out, comp)
		}
	}
	return out
}

// exceptObjs: (and (not (= r o1)) (not (= r o2)) ...)
func exceptObjs(r string, objs []string) string {
	var cs []string
	for _, o := range objs {
		cs = append(cs, "(not (= "+r+" "+o+"))")
	}
	return And(cs...)
}

// specModPatterns: the contract's modifies patterns with object-level entries (`p.f`, p a parameter) rewritten to the
// type-level pattern `T.f` they refine; used wherever only the set of components matters.
func (c *FnCtx) specModPatterns(fn *ssa.Function, spec *FuncSpec) []string {
	idx := map[string]int{}
	off := 0
	if fn.Signature.Recv() != nil && len(fn.Params) > 0 {
		idx["recv"] = 0
		off = 1
	}
	for k, n := range spec.Params {
		idx[n] = off + k
	}
	var out []string
	for _, p := range spec.Modifies {
		p = strings.TrimSpace(p)
		d := strings.Index(p, ".")
		if d > 0 && !strings.Contains(p, "$") {
			if k, ok := idx[p[:d]]; ok && k < len(fn.Params) {
				if pt, ok := fn.Params[k].Type().Underlying().(*types.Pointer); ok {
					if n, ok := pt.Elem().(*types.Named); ok {
						out = append(out, n.Obj().Name()+p[d:])
						continue
					}
				}
			}
		}
		out = append(out, p)
	}
	return out
}

// onMapStep: step contracts `ondelete m: expr` / `onmapstore m: expr` are obligations at each delete(m, key) resp.
// m[key] = val reached while verifying a function whose contract declares them (also inside inlined callees and
// closures), evaluated in the state just BEFORE the map changes, with `key` (and `val`) bound.  Names resolve in the
// frame of the statement first, then in the frames of its (inlined) callers.
func (c *FnCtx) onMapDelete(fr *Frame, st *State, m, key Val, pos token.Pos) {
	c.onMapStep(fr, st, "delete", m, key, nil, pos)
}

func (c *FnCtx) onMapStep(fr *Frame, st *State, what string, m, key Val, val *Val, pos token.Pos) {
	if c.sc.pure {
		return
	}
	// the contract that declares step clauses: the statement's own function or any caller it is inlined into
	for f := fr; f != nil; f = f.parent {
		spec := c.specFor(f)
		if spec == nil {
			continue
		}
		clauses := spec.OnDelete
		if what == "store" {
			clauses = spec.OnMapStore
		}
		for k, sc := range clauses {
			if sc.Mode != "" && sc.Mode != c.mode {
				continue
			}
			env := c.newEnv(fr, st, fr.entry)
			env.anyDef = true
			env.upFrames = true
			if blk := c.curBlock; blk != nil {
				for _, l := range fr.loops {
					if l.body[blk] && (env.loop == nil || len(l.body) < len(env.loop.body)) {
						env.loop = l
					}
				}
			}
			if m.From != sc.Chan {
				mv, ok := c.tryLookup(env, sc.Chan)
				if !ok || mv.E != m.E {
					continue
				}
			}
			env.names["key"] = key
			if val != nil {
				env.names["val"] = *val
			}
			g := c.evalBool(env, sc.E)
			o := c.obligation(st, "step", what+"."+sc.Chan+"."+clauseName(sc.Clause, k), g, pos)
			o.Desc = "at every " + what + " on " + sc.Chan + ": " + sc.Text
		}
	}
}
