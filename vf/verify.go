package main

import (
	"fmt"
	"go/types"
	"sort"
	"strings"

	"golang.org/x/tools/go/ssa"
)

type FnReport struct {
	Name       string
	Spec       *FuncSpec
	Obs        []*Obligation
	Assumed    []string
	Unmodelled []string
	Inlined    []string
	Err        string // untranslatable / spec error
	ErrKind    string // "subset", "spec", "missing"
	Witness    map[int]string
	ctx        *FnCtx
}

type Finding struct {
	Property   string `json:"property"`
	Obligation string `json:"obligation"`
	What       string `json:"what"`
	Witness    string `json:"witness,omitempty"` // spec expression over the function's entry state; "" = the whole obligation
	Replay     string `json:"replay,omitempty"`
	expr       Expr
}

type FixedEntry struct {
	Property string `json:"property"`
	Commit   string `json:"commit"`
	What     string `json:"what"`
}

type KnownFindings struct {
	Findings []*Finding    `json:"findings"`
	Fixed    []*FixedEntry `json:"fixed"`
}

func (e *Engine) findingsFor(kf *KnownFindings, fname string) []*Finding {
	var out []*Finding
	if kf == nil {
		return nil
	}
	for _, f := range kf.Findings {
		if strings.HasPrefix(f.Obligation, fname+"#") {
			out = append(out, f)
		}
	}
	return out
}

func (e *Engine) newCtx(fn *ssa.Function, spec *FuncSpec, mode string) *FnCtx {
	sc := NewScript()
	c := &FnCtx{
		eng: e, sc: sc, ty: NewTypes(sc), fn: fn, spec: spec, mode: mode,
		assumed: map[string]bool{}, unmodelled: map[string]bool{}, inlined: map[string]bool{},
		obSeq: map[string]int{}, ghostDecl: map[string]bool{}, maxDepth: 8,
		nonNil: map[string]bool{}, ranges: map[string]*rangeState{}, lastCall: map[string]Val{}, sliceLen: map[string]string{}, intUB: map[string]int{}, guardOf: map[string]string{}, guardSub: map[string]*guardInfo{}, constCell: map[string]Val{}, writeOnce: map[string]bool{}, trackArgT: map[string]types.Type{}, trackResT: map[string]*types.Tuple{}, freshMsgs: map[string]string{},
	}
	return c
}

func (c *FnCtx) entryState() *State {
	c.sc.Decl("alloc0", "(declare-const |alloc0| Int)\n(assert (> |alloc0| 0))")
	st := &State{heap: map[string]string{}, locals: map[string]Val{}, guard: "true", defers: map[int][]deferEntry{}, alloc: "|alloc0|"}
	for _, k := range c.eng.compOrder {
		for _, t := range c.eng.compDeps[k] {
			c.ty.SortOf(t) // declares the datatypes the component's sort mentions
		}
		n := q(k + "@0")
		c.sc.Decl("comp0:"+k, fmt.Sprintf("(declare-const %s %s)", n, c.eng.comps[k]))
		st.heap[k] = n
		// the entry heap is closed under allocation: every reference stored in it is below alloc0
		if et := c.eng.compElem[k]; et != nil {
			switch {
			case strings.HasPrefix(k, "E$"):
				if rb := And(c.refBound(et, "(select (select "+n+" r) i)", st), c.ty.Inv(et, "(select (select "+n+" r) i)")); rb != "true" {
					c.sc.Decl("wf0:"+k, fmt.Sprintf("(assert (forall ((r Int) (i Int)) (! %s :pattern ((select (select %s r) i)))))", rb, n))
				}
			default:
				if rb := And(c.refBound(et, "(select "+n+" r)", st), c.ty.Inv(et, "(select "+n+" r)")); rb != "true" {
					c.sc.Decl("wf0:"+k, fmt.Sprintf("(assert (forall ((r Int)) (! %s :pattern ((select %s r)))))", rb, n))
				}
			}
		}
	}
	return st
}

// VerifyFunc generates the obligations of one function under contract.
func (e *Engine) VerifyFunc(spec *FuncSpec, mode string, kf *KnownFindings) *FnReport {
	fn := e.funcByKey[spec.Pkg+"."+spec.Key]
	rep := &FnReport{Spec: spec, Witness: map[int]string{}}
	if fn == nil {
		rep.Name = strings.TrimPrefix(strings.TrimPrefix(spec.Pkg, e.module+"/"), "pkg/") + "." + spec.Key
		rep.Err = "function under contract does not exist: " + spec.Pkg + "." + spec.Key
		rep.ErrKind = "missing"
		return rep
	}
	rep.Name = e.funcName(fn)
	if spec.Trusted || spec.NoVerify {
		return rep
	}
	if spec.Inline && len(spec.Requires) == 0 && len(spec.Ensures) == 0 {
		return rep // only carries loop annotations for the places it is inlined into
	}
	for pass := 0; pass < 4; pass++ {
		c := e.newCtx(fn, spec, mode)
		rep.ctx = c
		err := c.runTop(rep, kf)
		if err != nil {
			rep.Err = err.Error()
			switch err.(type) {
			case unsupported:
				rep.ErrKind = "subset"
			default:
				rep.ErrKind = "spec"
			}
			return rep
		}
		if !c.newComps {
			rep.Obs = c.obs
			if only := spec.Options["only"]; only != "" {
				// a contract that only serves one discipline (e.g. `option only guard lock`) keeps those obligations
				var keep []*Obligation
				for _, o := range c.obs {
					for _, k := range strings.Fields(only) {
						if o.Kind == k {
							keep = append(keep, o)
						}
					}
				}
				rep.Obs = keep
			}
			rep.Assumed = keys(c.assumed)
			rep.Unmodelled = keys(c.unmodelled)
			rep.Inlined = keys(c.inlined)
			return rep
		}
	}
	rep.Err = "heap component discovery did not converge"
	rep.ErrKind = "subset"
	return rep
}

func keys(m map[string]bool) []string {
	var out []string
	for k := range m {
		out = append(out, k)
	}
	sort.Strings(out)
	return out
}

func (c *FnCtx) runTop(rep *FnReport, kf *KnownFindings) (err error) {
	defer func() {
		if r := recover(); r != nil {
			switch x := r.(type) {
			case unsupported:
				err = x
			case specError:
				err = x
			case parseErr:
				err = specError(string(x))
			default:
				panic(r)
			}
		}
	}()
	fn, spec := c.fn, c.spec
	c.newComps = false
	st := c.entryState()
	fr := c.newFrame(fn, nil)
	fr.spec = spec
	var args []Val
	for _, p := range fn.Params {
		v := c.fresh("arg$"+p.Name(), p.Type(), st)
		if _, isFn := p.Type().Underlying().(*types.Signature); isFn {
			// a callback passed as a parameter can be given a footprint: `callback Func.param: pure`
			v.From = funcKey(fn) + "." + p.Name()
		}
		fr.vals[p] = v
		args = append(args, v)
	}
	// function values of different (non-identical) function types are different values
	for i, p := range fn.Params {
		si, ok := p.Type().Underlying().(*types.Signature)
		if !ok {
			continue
		}
		for j := i + 1; j < len(fn.Params); j++ {
			if sj, ok := fn.Params[j].Type().Underlying().(*types.Signature); ok && !types.Identical(si, sj) {
				c.sc.Assume("(=> (not (= " + args[i].E + " 0)) (not (= " + args[i].E + " " + args[j].E + ")))")
			}
		}
	}
	for k, fv := range fn.FreeVars {
		// verifying a closure on its own: captured variables are arbitrary cells
		v := c.fresh("free$"+fv.Name(), fv.Type(), st)
		c.sc.Assume("(> " + v.E + " 0)")
		fr.free = append(fr.free, v)
		// a captured variable that its function initialises once and nobody reassigns (x := e, a captured parameter)
		// holds the same value for the whole run of the closure, whatever unknown code is called in between
		if a := capturedAlloc(fn, k); a != nil && singleStoreCell(a) {
			if pt, ok := fv.Type().Underlying().(*types.Pointer); ok && !isStructVal(pt.Elem()) {
				l := &Loc{Kind: locCell, Ref: v.E, RootT: pt.Elem(), Comp: c.cellHeap(pt.Elem())}
				c.constCell[v.E] = c.load(st, l, nil)
			}
		}
	}
	c.prescanTracked(fn, spec, 0, map[*ssa.Function]bool{})
	env := c.newEnv(fr, st, st)
	env.freeBind = fr.free
	c.bindParams(env, fn, spec, args)
	for k, v := range env.names {
		fr.names[k] = v
	}
	c.eng.ghostEntry(c, fr, st)
	if _, ok := c.eng.comps["ghost$lock"]; ok && spec.Options["locks"] != "caller" {
		// a function under contract is an entry point: this goroutine holds no lock when it is called
		c.sc.Assume("(forall ((m Int)) (! (= (select " + c.heapGet(st, "ghost$lock") + " m) 0) :pattern ((select " + c.heapGet(st, "ghost$lock") + " m))))")
	}
	// letold bindings are evaluated in the entry state
	for _, l := range spec.Lets {
		if l.Old {
			v := c.eval(env, l.E)
			v.E = c.sc.Define("let$"+l.Name, c.ty.SortOf(v.T), v.E)
			fr.names[l.Name] = v
			env.names[l.Name] = v
		}
	}
	c.assumeAxioms(env, spec.Pkg)
	for _, r := range spec.Requires {
		if r.Mode != "" && r.Mode != c.mode {
			continue
		}
		c.sc.Assume(c.evalBool(env, r.E))
	}
	// known-finding witness regions and replay values are evaluated in the entry state
	for k, f := range c.eng.findingsFor(kf, c.fnName()) {
		if f.Witness == "" {
			rep.Witness[k] = "true"
			continue
		}
		if f.expr == nil {
			ex, perr := ParseExpr(f.Witness)
			if perr != nil {
				return specError("known finding witness: " + perr.Error())
			}
			f.expr = ex
		}
		rep.Witness[k] = c.sc.Define("witness", sBool, c.evalBool(env, f.expr))
	}
	replayTerms := map[*ReplaySpec][]string{}
	evalReplay := func(rs *ReplaySpec) {
		var ts []string
		for _, a := range rs.Args {
			v := c.eval(env, a)
			ts = append(ts, c.sc.Define("rp", c.ty.SortOf(v.T), v.E))
		}
		replayTerms[rs] = ts
	}
	if spec.Replay != nil {
		evalReplay(spec.Replay)
	}
	for _, rs := range spec.Replays {
		evalReplay(rs)
	}
	vac := c.obligation(st, "vacuity", "requires", "true", fn.Pos())
	vac.Expect = "sat"
	vac.Desc = "precondition is satisfiable"
	rst, rvals := c.execBody(fr, st)
	// postconditions
	penv := c.newEnv(fr, rst, fr.entry)
	penv.freeBind = fr.free
	for k, rn := range spec.Results {
		if k < len(rvals) {
			penv.names[rn] = rvals[k]
		}
	}
	if len(rvals) == 1 {
		penv.names["result"] = rvals[0]
	}
	for _, l := range spec.Lets {
		if !l.Old {
			penv.names[l.Name] = c.eval(penv, l.E)
		}
	}
	for k, en := range spec.Ensures {
		if en.Mode != "" && en.Mode != c.mode {
			continue
		}
		if en.Mode == "" && c.mode == "INT" && spec.Mode == "BOTH" {
			continue // in a contract verified in both modes, untagged postconditions are the sequential ones
		}
		g := c.evalBool(penv, en.E)
		o := c.obligation(rst, "post", clauseName(en, k), g, fn.Pos())
		o.Desc = "postcondition: " + en.Text
	}
	c.eng.ghostExit(c, fr, rst, penv)
	if spec.HasMod && !(c.mode == "INT" && spec.Mode == "BOTH") {
		c.frameCheck(fr, rst)
	}
	if len(spec.Preserves) > 0 && !spec.HasMod {
		c.preserveCheck(fr, rst)
	}
	end := c.obligation(rst, "vacuity", "return-reachable", "true", fn.Pos())
	end.Expect = "sat"
	end.Goal = rst.guard
	end.Desc = "some return is reachable under the precondition"
	for _, o := range c.obs {
		if o.Replay == nil {
			continue
		}
		// a clause-specific driver wins over the function's default driver
		if k := strings.LastIndex(o.Name, "#"); k >= 0 {
			parts := strings.SplitN(o.Name[k+1:], ".", 2)
			if len(parts) == 2 {
				if rs, ok := spec.Replays[strings.SplitN(parts[1], "~", 2)[0]]; ok {
					o.Replay = rs
				} else if rs, ok := spec.Replays[clauseLabelOf(o.Name)]; ok {
					o.Replay = rs
				}
			}
		}
		o.GetVals = replayTerms[o.Replay]
	}
	return nil
}

// frameCheck: every heap component outside the modifies clause is unchanged on objects that existed at entry.
func (c *FnCtx) frameCheck(fr *Frame, rst *State) {
	allowed := c.eng.patternMods(c, c.specModPatterns(c.fn, c.spec))
	var entryArgs []Val
	for _, p := range c.fn.Params {
		entryArgs = append(entryArgs, fr.vals[p])
	}
	om := c.objMods(c.fn, c.spec, entryArgs)
	for _, k := range c.eng.compOrder {
		if objs, ok := om[k]; ok {
			// object-level modifies: every other pre-existing object is unchanged in this component
			h0, h1 := c.heapGet(fr.entry, k), c.heapGet(rst, k)
			if h0 == h1 {
				continue
			}
			g := fmt.Sprintf("(forall ((r Int)) (=> (and (< 0 r) (< r |alloc0|) %s) (= (select %s r) (select %s r))))", exceptObjs("r", objs), h1, h0)
			o := c.obligation(rst, "frame", k, g, c.fn.Pos())
			o.Desc = "heap component " + k + " may only change on the objects named in the modifies clause"
			continue
		}
		if allowed.all || allowed.comps[k] || strings.HasPrefix(k, "ghost$") {
			continue
		}
		h0, h1 := c.heapGet(fr.entry, k), c.heapGet(rst, k)
		if h0 == h1 {
			continue
		}
		var g string
		srt := c.eng.comps[k]
		switch {
		case strings.HasPrefix(srt, "(Array Int"):
			g = fmt.Sprintf("(forall ((r Int)) (=> (and (< 0 r) (< r |alloc0|)) (= (select %s r) (select %s r))))", h1, h0)
		default:
			g = Eq(h1, h0)
		}
		o := c.obligation(rst, "frame", k, g, c.fn.Pos())
		o.Desc = "heap component " + k + " is not in the modifies clause and must be unchanged on pre-existing objects"
	}
}

// preserveCheck: the partial frame of a `preserves` clause: the named components are unchanged on objects that existed
// at entry (everything else may change).
func (c *FnCtx) preserveCheck(fr *Frame, rst *State) {
	kept := c.eng.patternMods(c, c.spec.Preserves)
	for _, k := range c.eng.compOrder {
		if !kept.comps[k] {
			continue
		}
		h0, h1 := c.heapGet(fr.entry, k), c.heapGet(rst, k)
		if h0 == h1 {
			continue
		}
		var g string
		if strings.HasPrefix(c.eng.comps[k], "(Array Int") {
			g = fmt.Sprintf("(forall ((r Int)) (=> (and (< 0 r) (< r |alloc0|)) (= (select %s r) (select %s r))))", h1, h0)
		} else {
			g = Eq(h1, h0)
		}
		o := c.obligation(rst, "frame", "preserved."+k, g, c.fn.Pos())
		o.Desc = "heap component " + k + " is named in the preserves clause and must be unchanged on pre-existing objects"
	}
}

// VerifyLemma: a lemma over spec functions; variables are universally quantified.
func (e *Engine) VerifyLemma(lm *LemmaSpec) *FnReport {
	rep := &FnReport{Name: strings.TrimPrefix(strings.TrimPrefix(lm.Pkg, e.module+"/"), "pkg/") + ".lemma." + lm.Name}
	for pass := 0; pass < 4; pass++ {
		sc := NewScript()
		c := &FnCtx{eng: e, sc: sc, ty: NewTypes(sc), assumed: map[string]bool{}, unmodelled: map[string]bool{}, inlined: map[string]bool{}, obSeq: map[string]int{}, ghostDecl: map[string]bool{}, nonNil: map[string]bool{}, ranges: map[string]*rangeState{}, lastCall: map[string]Val{}, sliceLen: map[string]string{}, intUB: map[string]int{}, guardOf: map[string]string{}, guardSub: map[string]*guardInfo{}, constCell: map[string]Val{}, writeOnce: map[string]bool{}, trackArgT: map[string]types.Type{}, trackResT: map[string]*types.Tuple{}, freshMsgs: map[string]string{}}
		rep.ctx = c
		err := func() (err error) {
			defer func() {
				if r := recover(); r != nil {
					switch x := r.(type) {
					case unsupported:
						err = x
					case specError:
						err = x
					default:
						panic(r)
					}
				}
			}()
			st := c.entryState()
			env := &Env{c: c, st: st, old: st, names: map[string]Val{}, bound: map[string]Val{}, specPkg: lm.Pkg}
			for _, v := range lm.Vars {
				t := e.resolveType(lm.Pkg, v.Type)
				if t == nil {
					return specError("unknown type " + v.Type)
				}
				var val Val
				if t == tMath {
					val = Val{T: tMath, E: sc.Fresh("lv$"+v.Name, sInt)}
				} else {
					val = c.fresh("lv$"+v.Name, t, st)
				}
				env.names[v.Name] = val
			}
			c.assumeAxioms(env, lm.Pkg)
			for _, r := range lm.Requires {
				sc.Assume(c.evalBool(env, r.E))
			}
			vac := &Obligation{Name: rep.Name + "#vacuity.requires", Func: rep.Name, Kind: "vacuity", Prefix: sc.Mark(), Goal: "true", Expect: "sat", script: sc, Props: lm.Props, Desc: "lemma hypotheses are satisfiable"}
			c.obs = append(c.obs, vac)
			for k, en := range lm.Ensures {
				g := c.evalBool(env, en.E)
				o := &Obligation{Name: fmt.Sprintf("%s#lemma.%s", rep.Name, clauseName(en, k)), Func: rep.Name, Kind: "lemma", Prefix: sc.Mark(), Goal: g, script: sc, Props: lm.Props, Desc: "lemma: " + en.Text}
				c.obs = append(c.obs, o)
			}
			return nil
		}()
		if err != nil {
			rep.Err = err.Error()
			rep.ErrKind = "spec"
			return rep
		}
		if !c.newComps {
			rep.Obs = c.obs
			rep.Assumed = keys(c.assumed)
			return rep
		}
	}
	return rep
}

// assumeAxioms: definitional axioms of spec functions (evaluated over the entry heap).
func (c *FnCtx) assumeAxioms(env *Env, pkg string) {
	for _, ax := range c.eng.specs.Axioms {
		ne := *env
		ne.specPkg = ax.Pkg
		ne.names = map[string]Val{}
		ne.fr = nil
		ne.loop = nil
		t := c.evalBool(&ne, ax.E)
		if ax.Pkg != pkg {
			// an axiom of another package only matters if the query mentions what it talks about (a spec function
			// or a package-level variable); mark it so that the query builder can decide
			t = "(! " + t + " :named " + q("axiom$"+ax.Name) + ")"
			if specSymRe.FindString(t) == "" && globalSymRe.FindString(t) == "" {
				continue
			}
		}
		c.sc.AssumeAxiom(t)
		c.assumed["axiom "+ax.Name+": "+ax.Text] = true
	}
}

func (e *Engine) ghostEntry(c *FnCtx, fr *Frame, st *State)          {}
func (e *Engine) ghostExit(c *FnCtx, fr *Frame, st *State, env *Env) {}

var _ = types.Typ

// prescanTracked declares the argument ghosts of tracked callees before execution starts, so that invariants may name
// lastarg(F, k) at points the first call has not reached yet (guarded by calls(F) > ...).
func (c *FnCtx) prescanTracked(fn *ssa.Function, spec *FuncSpec, depth int, seen map[*ssa.Function]bool) {
	if spec == nil || len(spec.Track) == 0 || fn == nil || seen[fn] || depth > 3 {
		return
	}
	seen[fn] = true
	tracked := func(n string) bool {
		for _, t := range spec.Track {
			if t == n {
				return true
			}
		}
		return false
	}
	for _, b := range fn.Blocks {
		for _, ins := range b.Instrs {
			call, ok := ins.(ssa.CallInstruction)
			if !ok {
				continue
			}
			cc := call.Common()
			name := ""
			var ats []types.Type
			if cc.IsInvoke() {
				name = cc.Method.Name()
				ats = append(ats, cc.Value.Type())
			} else if callee := cc.StaticCallee(); callee != nil {
				name = callee.Name()
				if c.eng.inlinable(callee) || c.eng.specOf(callee) != nil {
					// (contracted callees too: their postconditions may speak about their own calls of a tracked callee, and the
					// call-log components need their types at the call site)
					c.prescanTracked(callee, spec, depth+1, seen)
				}
			}
			if name == "" || !tracked(name) {
				continue
			}
			if _, seen := c.trackResT[name]; !seen {
				rs := cc.Signature().Results()
				c.trackResT[name] = rs
				for k := 0; k < rs.Len(); k++ {
					comp := fmt.Sprintf("ghost$res$%s$%d", name, k)
					c.comp(comp, c.ty.SortOf(rs.At(k).Type()), rs.At(k).Type())
					c.trackArgT[comp] = rs.At(k).Type()
				}
			}
			for _, a := range cc.Args {
				ats = append(ats, a.Type())
			}
			for k, t := range ats {
				comp := fmt.Sprintf("ghost$arg$%s$%d", name, k)
				if _, ok := c.trackArgT[comp]; !ok {
					c.comp(comp, c.ty.SortOf(t), t)
					c.trackArgT[comp] = t
				}
			}
		}
	}
}

// capturedAlloc: the variable cell of the enclosing function that the k-th free variable of closure fn is bound to.
func capturedAlloc(fn *ssa.Function, k int) *ssa.Alloc {
	p := fn.Parent()
	if p == nil {
		return nil
	}
	for _, b := range p.Blocks {
		for _, ins := range b.Instrs {
			if mc, ok := ins.(*ssa.MakeClosure); ok && mc.Fn == ssa.Value(fn) && k < len(mc.Bindings) {
				if a, ok := mc.Bindings[k].(*ssa.Alloc); ok {
					return a
				}
			}
		}
	}
	return nil
}
