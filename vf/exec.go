package main

// Verification-condition generation over go/ssa.
//
// One FnCtx per verified function.  The SSA control-flow graph is walked in reverse post-order with back
// edges cut at loop headers (invariants), every block gets a reachability guard, phi nodes and heap
// components are merged with ite on edge guards (passive form).  Every intermediate value is a named
// define-fun, so queries stay linear in program size.

import (
	"fmt"
	"go/token"
	"go/types"
	"sort"
	"strconv"
	"strings"

	"golang.org/x/tools/go/ssa"
)

// Val is a symbolic Go value.
type Val struct {
	T         types.Type
	E         string   // SMT term (sort = SortOf(T)); empty for tuples / pure locations
	Tuple     []Val    // multi-valued results
	Clo       *Closure // statically known function value
	Loc       *Loc     // structurally known address (pointer values)
	Fn        *ssa.Function
	Dyn       types.Type // statically known dynamic type of an interface value
	Cancel    bool       // a context.CancelFunc created by the verified code
	From      string     // "Type.field" the value was loaded from (selects field-level callback declarations)
	Guard     string     // mutex that guards the object this value was loaded from (guarded_by)
	FreshFrom string     // deep-fresh message: everything reachable from it was allocated at or after this allocation mark
}

type Closure struct {
	Fn       *ssa.Function
	Bindings []Val
}

type locKind int

const (
	locField  locKind = iota // field Field of the struct object Ref (heap component H$S$f)
	locCell                  // cell of non-struct type behind pointer Ref
	locLocal                 // non-escaping local variable
	locElem                  // element Idx of backing array Ref
	locGlobal                // package-level variable
)

type Loc struct {
	Kind  locKind
	Ref   string
	Idx   string
	Comp  string     // heap component name
	Local string     // key into State.locals
	RootT types.Type // type of the value stored at the root
	Path  []int      // field path inside a struct value stored at the root
	ElemT types.Type
}

type deferEntry struct {
	guard string
	call  *ssa.CallCommon
	fr    *Frame
	pos   token.Pos
}

type State struct {
	heap   map[string]string
	locals map[string]Val
	guard  string
	defers map[int][]deferEntry // frame id -> stack
	alloc  string               // current allocation counter term
}

func (s *State) clone() *State {
	n := &State{heap: make(map[string]string, len(s.heap)), locals: make(map[string]Val, len(s.locals)), guard: s.guard, defers: map[int][]deferEntry{}, alloc: s.alloc}
	for k, v := range s.heap {
		n.heap[k] = v
	}
	for k, v := range s.locals {
		n.locals[k] = v
	}
	for k, v := range s.defers {
		n.defers[k] = append([]deferEntry(nil), v...)
	}
	return n
}

type Frame struct {
	id      int
	fn      *ssa.Function
	vals    map[ssa.Value]Val
	parent  *Frame
	free    []Val
	args    []Val
	entry   *State // state at function entry (for old())
	spec    *FuncSpec
	loops   map[*ssa.BasicBlock]*loopInfo
	depth   int
	names   map[string]Val // contract-bound names (params, results, lets)
	retVals []Val
	callPos token.Pos
}

type loopInfo struct {
	header     *ssa.BasicBlock
	ordinal    int
	spec       *LoopSpec
	body       map[*ssa.BasicBlock]bool
	pre        *State // state just before the loop (for old-style references)
	phis       []*ssa.Phi
	decr       string // value of the variant at the loop head
	frameComps []string
}

type retInfo struct {
	st   *State
	vals []Val
}

type FnCtx struct {
	modCache   map[*ssa.Function]*modSet
	eng        *Engine
	sc         *Script
	ty         *Types
	obs        []*Obligation
	fn         *ssa.Function
	spec       *FuncSpec
	mode       string
	frameSeq   int
	assumed    map[string]bool // assumptions used (for evidence)
	unmodelled map[string]bool
	inlined    map[string]bool
	newComps   bool
	obSeq      map[string]int
	stack      []*ssa.Function
	ghostDecl  map[string]bool
	pkg        *ssa.Package
	maxDepth   int
	callSeq    int
	unrollLeft map[*ssa.BasicBlock]int
	nonNil     map[string]bool
	ranges     map[string]*rangeState
	lastCall   map[string]Val
	pureObs    []string
	sliceLen   map[string]string       // slice terms whose length is a literal (argument lists built at call sites)
	guardOf    map[string]string       // map/pointer terms loaded from guarded fields -> mutex
	guardSub   map[string]*guardInfo   // sub-objects whose fields are guarded by the owner's mutex
	writeOnce  map[string]bool         // cell refs of captured variables with a single (initialising) store
	constCell  map[string]Val          // captured variables that are written exactly once (at their declaration): cell ref -> value
	freshMsgs  map[string]string       // protoreflect messages made by New(): term -> fresh message ref
	trackArgT  map[string]types.Type   // types of tracked call arguments (ghost$arg$Name$k)
	trackResT  map[string]*types.Tuple // result types of tracked callees seen in the code
	intUB      map[string]int          // small static upper bounds of integer terms (lengths of such slices after phi merges)
	curBlock   *ssa.BasicBlock         // block being executed (innermost frame)
	grafts     []string                // objects into which a message/list pointer was stored (deep-freshness of newer clones is void for them)
}

func (c *FnCtx) unsupported(format string, a ...any) {
	panic(unsupported(fmt.Sprintf(format, a...)))
}

// ---------- heap components ----------

func (c *FnCtx) comp(name, sort string, deps ...types.Type) string {
	if _, ok := c.eng.comps[name]; !ok {
		c.eng.comps[name] = sort
		c.eng.compDeps[name] = deps
		c.eng.compOrder = append(c.eng.compOrder, name)
		c.newComps = true
	}
	return name
}

func (c *FnCtx) heapGet(st *State, comp string) string {
	if t, ok := st.heap[comp]; ok {
		return t
	}
	// not yet known when the entry state was built: a second pass will pre-register it
	srt := c.eng.comps[comp]
	n := q(comp + "@0")
	c.sc.Decl("comp0:"+comp, fmt.Sprintf("(declare-const %s %s)", n, srt))
	st.heap[comp] = n
	return n
}

func (c *FnCtx) heapSet(st *State, comp string, term string) {
	st.heap[comp] = c.sc.Define(comp, c.eng.comps[comp], term)
}

func fieldComp(structT types.Type, field int) string {
	st := structT.Underlying().(*types.Struct)
	return "H$" + shortTypeName(structT) + "$" + st.Field(field).Name()
}

func (c *FnCtx) fieldHeap(structT types.Type, field int) string {
	st := structT.Underlying().(*types.Struct)
	n := c.comp(fieldComp(structT, field), "(Array Int "+c.ty.SortOf(st.Field(field).Type())+")", st.Field(field).Type())
	c.eng.compElem[n] = st.Field(field).Type()
	return n
}

func (c *FnCtx) cellHeap(t types.Type) string {
	n := c.comp("H$cell$"+shortTypeName(t), "(Array Int "+c.ty.SortOf(t)+")", t)
	c.eng.compElem[n] = t
	return n
}

func (c *FnCtx) elemHeap(t types.Type) string {
	n := c.comp("E$"+shortTypeName(t), "(Array Int (Array Int "+c.ty.SortOf(t)+"))", t)
	c.eng.compElem[n] = t
	return n
}

func (c *FnCtx) mapHeaps(m *types.Map) (has, val, ln string) {
	k := shortTypeName(m.Key()) + "$" + shortTypeName(m.Elem())
	ks, vs := c.ty.SortOf(m.Key()), c.ty.SortOf(m.Elem())
	has = c.comp("M$"+k+"$has", "(Array Int (Array "+ks+" Bool))", m.Key())
	val = c.comp("M$"+k+"$val", "(Array Int (Array "+ks+" "+vs+"))", m.Key(), m.Elem())
	ln = c.comp("M$"+k+"$len", "(Array Int Int)")
	return
}

func (c *FnCtx) globalComp(g *ssa.Global) string {
	t := g.Type().(*types.Pointer).Elem()
	return c.comp("G$"+g.Pkg.Pkg.Name()+"."+g.Name(), c.ty.SortOf(t), t)
}

// faddr: address of a struct-typed field embedded by value in another struct object.
func (c *FnCtx) faddr(structT types.Type, field int, ref string) string {
	st := structT.Underlying().(*types.Struct)
	fn := q("faddr$" + shortTypeName(structT) + "$" + st.Field(field).Name())
	inv := q("faddr-inv$" + shortTypeName(structT) + "$" + st.Field(field).Name())
	// derived addresses of different embedded fields never coincide: each carries the identity of its field
	c.sc.Decl("atag", "(declare-fun |atag| (Int) Int)")
	uid := c.eng.faddrUID(fn)
	c.sc.Decl("faddr:"+fn, fmt.Sprintf("(declare-fun %s (Int) Int)\n(declare-fun %s (Int) Int)\n(assert (forall ((r Int)) (! (and (= (%s (%s r)) r) (=> (> r 0) (> (%s r) 0)) (= (< r |alloc0|) (< (%s r) |alloc0|)) (= (|atag| (%s r)) %d)) :pattern ((%s r)))))", fn, inv, inv, fn, fn, fn, fn, uid, fn))
	return App(fn, ref)
}

// ---------- obligations ----------

func (c *FnCtx) obligation(st *State, kind, clause, goal string, pos token.Pos) *Obligation {
	if c.sc.pure {
		// inside a closure being turned into a term: safety conditions are collected and discharged once, quantified
		c.pureObs = append(c.pureObs, Implies(st.guard, goal))
		return &Obligation{}
	}
	base := c.fnName() + "#" + kind
	if clause != "" {
		base += "." + clause
	}
	c.obSeq[base]++
	name := base
	if n := c.obSeq[base]; n > 1 {
		name = fmt.Sprintf("%s~%d", base, n)
	}
	o := &Obligation{
		Name: name, Func: c.fnName(), Kind: kind, Prefix: c.sc.Mark(),
		Goal: Implies(st.guard, goal), script: c.sc, Pos: c.eng.pos(pos),
	}
	if c.spec != nil {
		o.Props = c.spec.Props
		o.Bounded = c.spec.Bounded
		o.Replay = c.spec.Replay
		if o.Replay == nil && len(c.spec.Replays) > 0 {
			o.Replay = &ReplaySpec{} // placeholder, resolved per clause after generation
		}
	}
	c.obs = append(c.obs, o)
	return o
}

func (c *FnCtx) fnName() string {
	if c.mode == "INT" && c.spec != nil && c.spec.Mode == "BOTH" {
		return c.eng.funcName(c.fn) + "@INT" // the interference-mode run of a contract verified in both modes
	}
	return c.eng.funcName(c.fn)
}

func (c *FnCtx) assume(st *State, cond string) {
	c.sc.Assume(Implies(st.guard, cond))
}

func (c *FnCtx) fresh(hint string, t types.Type, st *State) Val {
	srt := c.ty.SortOf(t)
	n := c.sc.Fresh(hint, srt)
	if inv := c.ty.Inv(t, n); inv != "true" {
		c.sc.Assume(inv)
	}
	if st != nil {
		if rb := c.refBound(t, n, st); rb != "true" {
			c.sc.Assume(rb)
		}
	}
	return Val{T: t, E: n}
}

func isRefType(t types.Type) bool {
	if _, ok := opaqueSort(t); ok {
		return false
	}
	switch t.Underlying().(type) {
	case *types.Pointer, *types.Map, *types.Chan:
		return true
	}
	return false
}

// refBound: every reference contained in a value is below the allocation counter.
func (c *FnCtx) refBound(t types.Type, e string, st *State) string {
	if _, ok := opaqueSort(t); ok {
		return "true"
	}
	switch u := t.Underlying().(type) {
	case *types.Pointer, *types.Map, *types.Chan:
		return "(< " + e + " " + st.alloc + ")"
	case *types.Slice:
		return "(< (s-arr " + e + ") " + st.alloc + ")"
	case *types.Interface:
		return "(< (i-val " + e + ") " + st.alloc + ")"
	case *types.Struct:
		si := c.ty.structInfoOf(t)
		var cs []string
		for i := 0; i < u.NumFields(); i++ {
			cs = append(cs, c.refBound(u.Field(i).Type(), App(si.fields[i], e), st))
		}
		return And(cs...)
	}
	return "true"
}

// loaded values satisfy their type invariant and only refer to allocated objects
func (c *FnCtx) assumeLoaded(st *State, t types.Type, e string) {
	if inv := c.ty.Inv(t, e); inv != "true" {
		c.assume(st, inv)
	}
	if rb := c.refBound(t, e, st); rb != "true" {
		c.assume(st, rb)
	}
}

func (c *FnCtx) newRef(st *State, hint string) string {
	r := c.sc.Define(hint, sInt, st.alloc)
	st.alloc = c.sc.Define("alloc", sInt, "(+ "+st.alloc+" 1)")
	return r
}

// ---------- executing a function body ----------

func (c *FnCtx) newFrame(fn *ssa.Function, parent *Frame) *Frame {
	c.frameSeq++
	fr := &Frame{id: c.frameSeq, fn: fn, vals: map[ssa.Value]Val{}, parent: parent, loops: map[*ssa.BasicBlock]*loopInfo{}, names: map[string]Val{}}
	if parent != nil {
		fr.depth = parent.depth + 1
	}
	return fr
}

type edgeIn struct {
	predIdx int
	st      *State
}

// execBody symbolically executes fn from st; returns the merged state at return and the result values.
func (c *FnCtx) execBody(fr *Frame, st *State) (*State, []Val) {
	fn := fr.fn
	if len(fn.Blocks) == 0 {
		c.unsupported("function %s has no body", fn)
	}
	fr.entry = st.clone()
	c.findLoops(fr)
	order := rpo(fn)
	var rets []retInfo
	rg := &region{in: map[*ssa.BasicBlock][]edgeIn{}, rets: &rets, skip: map[*ssa.BasicBlock]bool{}}
	rg.in[fn.Blocks[0]] = []edgeIn{{-1, st}}
	c.runBlocks(fr, order, rg)
	if len(rets) == 0 {
		// function never returns normally (panics or loops forever)
		dead := st.clone()
		dead.guard = "false"
		var zs []Val
		res := fn.Signature.Results()
		for i := 0; i < res.Len(); i++ {
			zs = append(zs, Val{T: res.At(i).Type(), E: c.ty.Zero(res.At(i).Type())})
		}
		return dead, zs
	}
	return c.mergeReturns(fr, rets)
}

// region: the set of blocks currently being executed.  The top region is the whole function; unrolling a loop opens
// a sub-region per iteration whose exit edges flow to the enclosing region.
type region struct {
	in     map[*ssa.BasicBlock][]edgeIn
	rets   *[]retInfo
	unroll *loopInfo
	next   []edgeIn
	outer  *region
	skip   map[*ssa.BasicBlock]bool
}

func (c *FnCtx) runBlocks(fr *Frame, order []*ssa.BasicBlock, rg *region) {
	for _, b := range order {
		if rg.skip[b] {
			continue
		}
		ins := rg.in[b]
		if len(ins) == 0 {
			continue
		}
		if b == fr.fn.Recover {
			continue
		}
		if li := fr.loops[b]; li != nil && !(rg.unroll == li) {
			if n, bounded, ok := c.unrollBound(fr, li, ins); ok {
				c.execUnrolled(fr, li, ins, rg, order, n, bounded)
				for lb := range li.body {
					rg.skip[lb] = true
				}
				continue
			}
		}
		bst := c.enterBlock(fr, b, ins, rg.unroll != nil && rg.unroll.header == b)
		if bst == nil {
			continue
		}
		c.execBlock(fr, b, bst, rg)
	}
}

// unrollBound decides whether a loop is executed by unrolling: either the contract asks for a bounded stand-in
// (`unroll N`), or it is a range loop over a slice whose length is a literal (argument lists built at the call site).
func (c *FnCtx) sliceLenBound(term string) (int, bool) {
	if term == nilSlice {
		return 0, true
	}
	if l, ok := c.sliceLen[term]; ok {
		n, err := strconv.Atoi(l)
		return n, err == nil
	}
	if ub, ok := c.intUB["(s-len "+term+")"]; ok {
		return ub, true
	}
	return 0, false
}

func (c *FnCtx) unrollBound(fr *Frame, li *loopInfo, ins []edgeIn) (n int, bounded bool, ok bool) {
	if li.spec != nil && li.spec.Unroll > 0 {
		return li.spec.Unroll, true, true
	}
	if li.spec != nil {
		return 0, false, false
	}
	isRange := false
	for _, p := range li.phis {
		if p.Comment == "rangeindex" {
			isRange = true
		}
	}
	if !isRange {
		return 0, false, false
	}
	for _, ins := range li.header.Instrs {
		if b, ok := ins.(*ssa.BinOp); ok && b.Op == token.LSS {
			if v, defd := fr.vals[b.Y]; defd {
				if k, err := strconv.Atoi(v.E); err == nil && k >= 0 && k <= 12 {
					return k, false, true
				}
				if ub, ok := c.intUB[v.E]; ok && ub <= 12 {
					return ub, false, true
				}
			} else if cst, isC := b.Y.(*ssa.Const); isC {
				if k, err := strconv.Atoi(c.val(fr, cst).E); err == nil && k >= 0 && k <= 12 {
					return k, false, true
				}
			}
		}
	}
	return 0, false, false
}

func (c *FnCtx) execUnrolled(fr *Frame, li *loopInfo, ins []edgeIn, rg *region, order []*ssa.BasicBlock, n int, bounded bool) {
	var body []*ssa.BasicBlock
	for _, b := range order {
		if li.body[b] {
			body = append(body, b)
		}
	}
	cur := ins
	for iter := 0; len(cur) > 0; iter++ {
		if iter > n {
			for _, e := range cur {
				o := c.obligation(e.st, "unwind", fmt.Sprintf("loop%d", li.ordinal), "false", li.header.Instrs[0].Pos())
				o.Desc = fmt.Sprintf("unwinding assertion: the loop needs no more than %d iterations", n)
				if bounded && o.Bounded == "" {
					o.Bounded = fmt.Sprintf("unroll=%d", n)
				}
			}
			break
		}
		sub := &region{in: map[*ssa.BasicBlock][]edgeIn{}, rets: rg.rets, unroll: li, outer: rg, skip: map[*ssa.BasicBlock]bool{}}
		sub.in[li.header] = cur
		c.runBlocks(fr, body, sub)
		cur = sub.next
	}
}

func rpo(fn *ssa.Function) []*ssa.BasicBlock {
	seen := map[*ssa.BasicBlock]bool{}
	var post []*ssa.BasicBlock
	var visit func(b *ssa.BasicBlock)
	visit = func(b *ssa.BasicBlock) {
		seen[b] = true
		for _, s := range b.Succs {
			if !seen[s] {
				visit(s)
			}
		}
		post = append(post, b)
	}
	visit(fn.Blocks[0])
	for i, j := 0, len(post)-1; i < j; i, j = i+1, j-1 {
		post[i], post[j] = post[j], post[i]
	}
	return post
}

func isBackEdge(from, to *ssa.BasicBlock) bool { return to.Dominates(from) }

func (c *FnCtx) findLoops(fr *Frame) {
	fn := fr.fn
	var headers []*ssa.BasicBlock
	for _, b := range fn.Blocks {
		for _, p := range b.Preds {
			if isBackEdge(p, b) {
				if fr.loops[b] == nil {
					fr.loops[b] = &loopInfo{header: b, body: map[*ssa.BasicBlock]bool{b: true}}
					headers = append(headers, b)
				}
				// natural loop of back edge p->b
				li := fr.loops[b]
				var stack []*ssa.BasicBlock
				if !li.body[p] {
					li.body[p] = true
					stack = append(stack, p)
				}
				for len(stack) > 0 {
					x := stack[len(stack)-1]
					stack = stack[:len(stack)-1]
					for _, pp := range x.Preds {
						if !li.body[pp] {
							li.body[pp] = true
							stack = append(stack, pp)
						}
					}
				}
			}
		}
	}
	sort.Slice(headers, func(i, j int) bool { return headers[i].Index < headers[j].Index })
	spec := c.specFor(fr)
	for i, h := range headers {
		li := fr.loops[h]
		li.ordinal = i
		if spec != nil {
			li.spec = spec.Loops[i]
		}
		for _, ins := range h.Instrs {
			if p, ok := ins.(*ssa.Phi); ok {
				li.phis = append(li.phis, p)
			}
		}
	}
}

// specFor: loop annotations for the frame's function (the verified function itself, or an inlined callee/closure
// that has its own spec entry carrying loop invariants).
func (c *FnCtx) specFor(fr *Frame) *FuncSpec {
	if fr.spec != nil {
		return fr.spec
	}
	return c.eng.specOf(fr.fn)
}

func (c *FnCtx) enterBlock(fr *Frame, b *ssa.BasicBlock, ins []edgeIn, unrolling bool) *State {
	li := fr.loops[b]
	if unrolling {
		li = nil
	}
	var st *State
	if len(ins) == 1 {
		st = ins[0].st
	} else {
		st = c.mergeStates(ins)
	}
	// phi nodes
	for _, instr := range b.Instrs {
		p, ok := instr.(*ssa.Phi)
		if !ok {
			break
		}
		var v Val
		first := true
		for _, e := range ins {
			ev := c.val(fr, p.Edges[e.predIdx])
			ev = c.materialize(ev, e.st)
			if first {
				v = ev
				first = false
				continue
			}
			if ev.Clo != v.Clo || ev.Loc != nil || v.Loc != nil {
				v.Clo = nil
				if ev.Loc != nil || v.Loc != nil {
					c.unsupported("phi of structural addresses in %s", fr.fn)
				}
			}
			v = Val{T: p.Type(), E: Ite(e.st.guard, ev.E, v.E), Clo: v.Clo}
		}
		v.T = p.Type()
		if !first && !isAtom(v.E) {
			v.E = c.sc.Define(fr.fn.Name()+"."+p.Name(), c.ty.SortOf(p.Type()), v.E)
		}
		if _, isSl := p.Type().Underlying().(*types.Slice); isSl && len(ins) > 1 {
			// all incoming slices have statically known lengths: remember the largest
			ub, all := 0, true
			for _, e := range ins {
				ev := c.val(fr, p.Edges[e.predIdx])
				l, ok := c.sliceLenBound(ev.E)
				if !ok {
					all = false
					break
				}
				if l > ub {
					ub = l
				}
			}
			if all {
				c.intUB["(s-len "+v.E+")"] = ub
			}
		}
		fr.vals[p] = v
	}
	if li != nil {
		c.loopHead(fr, li, st)
	}
	return st
}

// mergeStates joins the states of several incoming edges.
func (c *FnCtx) mergeStates(ins []edgeIn) *State {
	base := ins[0].st
	out := base.clone()
	var guards []string
	for _, e := range ins {
		guards = append(guards, e.st.guard)
	}
	out.guard = c.sc.Define("g", sBool, Or(guards...))
	comps := map[string]bool{}
	for _, e := range ins {
		for k := range e.st.heap {
			comps[k] = true
		}
	}
	keys := make([]string, 0, len(comps))
	for k := range comps {
		keys = append(keys, k)
	}
	sort.Strings(keys)
	for _, k := range keys {
		t := c.heapGet(ins[0].st, k)
		same := true
		for _, e := range ins[1:] {
			if c.heapGet(e.st, k) != t {
				same = false
			}
		}
		if same {
			out.heap[k] = t
			continue
		}
		term := t
		for _, e := range ins[1:] {
			term = Ite(e.st.guard, c.heapGet(e.st, k), term)
		}
		out.heap[k] = c.sc.Define(k, c.eng.comps[k], term)
	}
	// locals
	lkeys := map[string]bool{}
	for _, e := range ins {
		for k := range e.st.locals {
			lkeys[k] = true
		}
	}
	var lks []string
	for k := range lkeys {
		lks = append(lks, k)
	}
	sort.Strings(lks)
	for _, k := range lks {
		v0, ok0 := ins[0].st.locals[k]
		if !ok0 {
			// defined on some paths only (declared later): take any defined one, guarded
			for _, e := range ins {
				if v, ok := e.st.locals[k]; ok {
					v0 = v
					break
				}
			}
		}
		term := v0.E
		clo := v0.Clo
		for _, e := range ins[1:] {
			v, ok := e.st.locals[k]
			if !ok {
				continue
			}
			if v.Clo != clo {
				clo = nil
			}
			term = Ite(e.st.guard, v.E, term)
		}
		if !isAtom(term) {
			term = c.sc.Define("loc", c.ty.SortOf(v0.T), term)
		}
		out.locals[k] = Val{T: v0.T, E: term, Clo: clo}
	}
	// allocation counter
	al := ins[0].st.alloc
	for _, e := range ins[1:] {
		al = Ite(e.st.guard, e.st.alloc, al)
	}
	out.alloc = c.sc.Define("alloc", sInt, al)
	// defers: stacks must agree structurally; entries pushed on one side only become guarded
	for fid := range out.defers {
		delete(out.defers, fid)
	}
	fids := map[int]bool{}
	for _, e := range ins {
		for fid := range e.st.defers {
			fids[fid] = true
		}
	}
	for fid := range fids {
		var longest []deferEntry
		for _, e := range ins {
			if len(e.st.defers[fid]) > len(longest) {
				longest = e.st.defers[fid]
			}
		}
		merged := make([]deferEntry, len(longest))
		for i, d := range longest {
			var gs []string
			for _, e := range ins {
				ds := e.st.defers[fid]
				if i < len(ds) {
					if ds[i].call != d.call {
						c.unsupported("defer stacks diverge")
					}
					gs = append(gs, And(e.st.guard, ds[i].guard))
				}
			}
			d.guard = c.sc.Define("dg", sBool, Or(gs...))
			merged[i] = d
		}
		out.defers[fid] = merged
	}
	return out
}

// materialize turns a value into something that can flow through phi/ite (terms only).
func (c *FnCtx) materialize(v Val, st *State) Val {
	if v.Loc != nil && v.E == "" {
		if v.Loc.Kind == locField {
			// pointer to a scalar field of a heap object
			return v
		}
		return v
	}
	return v
}

func (c *FnCtx) execBlock(fr *Frame, b *ssa.BasicBlock, st *State, rg *region) {
	rets := rg.rets
	saved := c.curBlock
	c.curBlock = b
	defer func() { c.curBlock = saved }()
	for _, instr := range b.Instrs {
		switch i := instr.(type) {
		case *ssa.Phi, *ssa.DebugRef:
			continue
		case *ssa.If:
			cond := c.val(fr, i.Cond).E
			c.edge(fr, b, 0, st, cond, rg)
			c.edge(fr, b, 1, st, Not(cond), rg)
			return
		case *ssa.Jump:
			c.edge(fr, b, 0, st, "true", rg)
			return
		case *ssa.Return:
			var vs []Val
			for _, r := range i.Results {
				vs = append(vs, c.val(fr, r))
			}
			*rets = append(*rets, retInfo{st, vs})
			return
		case *ssa.Panic:
			c.doPanic(fr, st, i)
			return
		default:
			c.execInstr(fr, st, instr)
			if st.guard == "false" {
				return
			}
		}
	}
}

func (c *FnCtx) doPanic(fr *Frame, st *State, i *ssa.Panic) {
	o := c.obligation(st, "safe", "panic", "false", i.Pos())
	o.Desc = "explicit panic reachable"
}

func (c *FnCtx) edge(fr *Frame, from *ssa.BasicBlock, succIdx int, st *State, cond string, rg *region) {
	to := from.Succs[succIdx]
	predIdx := -1
	cnt := 0
	for k, p := range to.Preds {
		if p == from {
			// a block may appear twice in Preds (both branches of an If to the same target)
			if cnt == 0 || succIdx == 1 {
				predIdx = k
			}
			cnt++
		}
	}
	if cnt > 1 && succIdx == 0 {
		for k, p := range to.Preds {
			if p == from {
				predIdx = k
				break
			}
		}
	}
	ns := st.clone()
	if cond != "true" {
		ns.guard = c.sc.Define("g", sBool, And(st.guard, cond))
	}
	if ns.guard == "false" {
		return
	}
	for r := rg; r != nil; r = r.outer {
		if r.unroll != nil {
			if to == r.unroll.header && r.unroll.body[from] {
				r.next = append(r.next, edgeIn{predIdx, ns})
				return
			}
			if !r.unroll.body[to] {
				continue // leaves the loop being unrolled: the enclosing region receives the edge
			}
		}
		if isBackEdge(from, to) {
			c.loopBack(fr, fr.loops[to], ns, predIdx)
			return
		}
		r.in[to] = append(r.in[to], edgeIn{predIdx, ns})
		return
	}
}

func (c *FnCtx) mergeReturns(fr *Frame, rets []retInfo) (*State, []Val) {
	if len(rets) == 1 {
		return rets[0].st, rets[0].vals
	}
	var ins []edgeIn
	for _, r := range rets {
		ins = append(ins, edgeIn{-1, r.st})
	}
	st := c.mergeStates(ins)
	n := len(rets[0].vals)
	out := make([]Val, n)
	for k := 0; k < n; k++ {
		v := rets[0].vals[k]
		term := v.E
		clo := v.Clo
		for _, r := range rets[1:] {
			if r.vals[k].Clo != clo {
				clo = nil
			}
			if r.vals[k].Loc != nil || v.Loc != nil {
				c.unsupported("returning structural address from %s", fr.fn)
			}
			term = Ite(r.st.guard, r.vals[k].E, term)
		}
		t := fr.fn.Signature.Results().At(k).Type()
		if !isAtom(term) {
			term = c.sc.Define(fr.fn.Name()+".ret", c.ty.SortOf(t), term)
		}
		out[k] = Val{T: t, E: term, Clo: clo}
	}
	return st, out
}

// ---------- loops ----------

func (c *FnCtx) loopEnv(fr *Frame, li *loopInfo, override map[ssa.Value]Val) *Env {
	env := c.newEnv(fr, nil, nil)
	env.loop = li
	env.override = override
	return env
}

func (c *FnCtx) loopHead(fr *Frame, li *loopInfo, st *State) {
	// bounded stand-in: unroll instead of cutting
	li.pre = st.clone()
	if li.spec != nil {
		for k, as := range li.spec.Asserts {
			env := c.loopEnv(fr, li, nil)
			env.st, env.old = st, fr.entry
			g := c.evalBool(env, as.E)
			o := c.obligation(st, "assert", fmt.Sprintf("loop%d.entry.%s", li.ordinal, clauseName(as, k)), g, li.header.Instrs[0].Pos())
			o.Desc = "holds when the loop is entered: " + as.Text
			c.assume(st, g) // assert-then-assume: later assertions and the loop may build on it (a failure is reported above)
		}
	}
	// 1. invariants hold on entry
	if li.spec != nil {
		for k, inv := range li.spec.Invariants {
			if inv.Mode != "" && inv.Mode != c.mode {
				continue
			}
			env := c.loopEnv(fr, li, nil)
			env.st, env.old = st, fr.entry
			g := c.evalBool(env, inv.E)
			o := c.obligation(st, "inv", fmt.Sprintf("loop%d.entry.%s", li.ordinal, clauseName(inv, k)), g, li.header.Instrs[0].Pos())
			o.Desc = "loop invariant holds on entry: " + inv.Text
		}
	}
	// 2. havoc what the loop may change
	for _, p := range li.phis {
		v := c.fresh(fr.fn.Name()+"."+p.Comment, p.Type(), st)
		fr.vals[p] = v
	}
	for _, p := range li.phis {
		if p.Comment == "rangeindex" {
			// go/ssa lowers `for i := range s` to an index starting at -1 and incremented by one: it never goes below -1
			c.assume(st, "(and (>= "+fr.vals[p].E+" (- 1)) (<= "+fr.vals[p].E+" 4611686018427387904))")
		}
	}
	mods := c.loopMods(fr, li)
	// automatic frame invariant: when the verified function's contract has a modifies clause, every heap component
	// outside it stays unchanged on objects that existed at function entry, in every loop iteration.  It is an
	// ordinary invariant (checked on entry and on every back edge), generated so that contracts need not repeat it.
	li.frameComps = nil
	if c.spec != nil && (c.spec.HasMod || len(c.spec.Preserves) > 0) {
		allowed := c.eng.patternMods(c, c.specModPatterns(c.fn, c.spec))
		if !c.spec.HasMod {
			// a `preserves` clause: only the named components are framed
			kept := c.eng.patternMods(c, c.spec.Preserves)
			allowed = newModSet()
			for _, k := range c.eng.compOrder {
				if !kept.comps[k] {
					allowed.comps[k] = true
				}
			}
		}
		var ks []string
		if mods.all {
			ks = append(ks, c.eng.compOrder...)
		} else {
			for k := range mods.comps {
				ks = append(ks, k)
			}
			sort.Strings(ks)
		}
		for _, k := range ks {
			if _, known := c.eng.comps[k]; !known || allowed.all || allowed.comps[k] || strings.HasPrefix(k, "ghost$") {
				continue
			}
			if !strings.HasPrefix(c.eng.comps[k], "(Array Int") {
				continue
			}
			li.frameComps = append(li.frameComps, k)
			o := c.obligation(st, "inv", fmt.Sprintf("loop%d.entry.frame.%s", li.ordinal, k), c.frameTerm(k, c.heapGet(st, k)), li.header.Instrs[0].Pos())
			o.Desc = "automatic frame invariant holds on loop entry for " + k
		}
	}
	// call counters only ever go up: whatever the loop does to them, they are at least what they were on entry
	preCalls := map[string]string{}
	for _, k := range c.eng.compOrder {
		if strings.HasPrefix(k, "ghost$calls$") && (mods.comps[k]) {
			preCalls[k] = c.heapGet(st, k)
		}
	}
	c.havocSet(st, mods, fmt.Sprintf("loop%d", li.ordinal))
	for k, pre := range preCalls {
		c.assume(st, "(>= "+c.heapGet(st, k)+" "+pre+")")
	}
	if c.spec != nil {
		// lastcall(F) of a tracked callee that the loop body calls: at an arbitrary iteration it is whatever the previous
		// iteration's call returned, not the value from before the loop
		calledInLoop := map[string]bool{}
		var lblocks []*ssa.BasicBlock
		for b := range li.body {
			lblocks = append(lblocks, b)
		}
		c.trackedCalledIn(lblocks, calledInLoop, 0, map[*ssa.Function]bool{})
		for _, name := range c.spec.Track {
			if !calledInLoop[name] {
				continue
			}
			delete(c.lastCall, name) // the value facts of the pre-loop call no longer describe the latest call
		}
	}
	for _, k := range li.frameComps {
		c.assume(st, c.frameTerm(k, c.heapGet(st, k)))
	}
	// 3. assume invariants
	if li.spec != nil {
		for _, inv := range li.spec.Invariants {
			if inv.Mode != "" && inv.Mode != c.mode {
				continue
			}
			env := c.loopEnv(fr, li, nil)
			env.st, env.old = st, fr.entry
			c.assume(st, c.evalBool(env, inv.E))
		}
		if li.spec.Decreases != nil {
			env := c.loopEnv(fr, li, nil)
			env.st, env.old = st, fr.entry
			li.decr = c.sc.Define("variant", sInt, c.eval(env, li.spec.Decreases.E).E)
		}
	}
}

func clauseName(cl Clause, k int) string {
	if cl.Label != "" {
		return cl.Label
	}
	return fmt.Sprintf("%d", k)
}

func (c *FnCtx) frameTerm(k, now string) string {
	h0 := q(k + "@0")
	return fmt.Sprintf("(forall ((r Int)) (! (=> (and (< 0 r) (< r |alloc0|)) (= (select %s r) (select %s r))) :pattern ((select %s r))))", now, h0, now)
}

func (c *FnCtx) loopBack(fr *Frame, li *loopInfo, st *State, predIdx int) {
	if li == nil {
		return
	}
	for _, k := range li.frameComps {
		o := c.obligation(st, "inv", fmt.Sprintf("loop%d.preserved.frame.%s", li.ordinal, k), c.frameTerm(k, c.heapGet(st, k)), li.header.Instrs[0].Pos())
		o.Desc = "automatic frame invariant preserved for " + k
	}
	if li.spec == nil {
		return
	}
	override := map[ssa.Value]Val{}
	for _, p := range li.phis {
		override[p] = c.val(fr, p.Edges[predIdx])
	}
	for k, inv := range li.spec.Invariants {
		if inv.Mode != "" && inv.Mode != c.mode {
			continue
		}
		env := c.loopEnv(fr, li, override)
		env.st, env.old = st, fr.entry
		g := c.evalBool(env, inv.E)
		o := c.obligation(st, "inv", fmt.Sprintf("loop%d.preserved.%s", li.ordinal, clauseName(inv, k)), g, li.header.Instrs[0].Pos())
		o.Desc = "loop invariant preserved: " + inv.Text
	}
	if li.spec.Decreases != nil {
		env := c.loopEnv(fr, li, override)
		env.st, env.old = st, fr.entry
		nv := c.eval(env, li.spec.Decreases.E).E
		o := c.obligation(st, "term", fmt.Sprintf("loop%d.decreases", li.ordinal), And("(< "+nv+" "+li.decr+")", "(>= "+li.decr+" 0)"), li.header.Instrs[0].Pos())
		o.Desc = "loop variant decreases and is bounded below: " + li.spec.Decreases.Text
	}
}

// modSet: heap components / locals possibly written.  all=true means everything.
type modSet struct {
	all    bool
	comps  map[string]bool
	locals map[string]bool
	alloc  bool
}

func newModSet() *modSet { return &modSet{comps: map[string]bool{}, locals: map[string]bool{}} }

func (m *modSet) union(o *modSet) {
	if o.all {
		m.all = true
	}
	for k := range o.comps {
		m.comps[k] = true
	}
	for k := range o.locals {
		m.locals[k] = true
	}
	if o.alloc {
		m.alloc = true
	}
}

func (c *FnCtx) havocSet(st *State, m *modSet, why string) {
	if m.all {
		for _, k := range c.eng.compOrder {
			if c.eng.immutableComp(k) {
				continue
			}
			if strings.HasPrefix(k, "ghost$lock") || strings.HasPrefix(k, "ghost$cb") || k == "ghost$cancelled" ||
				strings.HasPrefix(k, "ghost$calls$") || strings.HasPrefix(k, "ghost$arg$") || strings.HasPrefix(k, "ghost$argelem$") || strings.HasPrefix(k, "ghost$res$") || strings.HasPrefix(k, "ghost$calllock$") || strings.HasPrefix(k, "ghost$callgen$") {
				// bookkeeping of the verified goroutine itself (locks it holds, its callback log): code we cannot see
				// does not lock/unlock on our behalf (assumed); callbacks update the log through their own hooks
				if !m.comps[k] {
					continue
				}
			}
			st.heap[k] = c.sc.Fresh(k+"$"+why, c.eng.comps[k])
		}
	} else {
		var ks []string
		for k := range m.comps {
			ks = append(ks, k)
		}
		sort.Strings(ks)
		for _, k := range ks {
			if _, ok := c.eng.comps[k]; !ok {
				continue
			}
			st.heap[k] = c.sc.Fresh(k+"$"+why, c.eng.comps[k])
		}
	}
	var ls []string
	for k := range m.locals {
		ls = append(ls, k)
	}
	sort.Strings(ls)
	for _, k := range ls {
		if v, ok := st.locals[k]; ok {
			nv := c.fresh("loc$"+why, v.T, st)
			st.locals[k] = nv
		}
	}
	if m.all || m.alloc {
		na := c.sc.Fresh("alloc$"+why, sInt)
		c.sc.Assume("(>= " + na + " " + st.alloc + ")")
		st.alloc = na
	}
}

func (c *FnCtx) loopMods(fr *Frame, li *loopInfo) *modSet {
	m := newModSet()
	var blocks []*ssa.BasicBlock
	for b := range li.body {
		blocks = append(blocks, b)
	}
	sort.Slice(blocks, func(i, j int) bool { return blocks[i].Index < blocks[j].Index })
	for _, b := range blocks {
		for _, ins := range b.Instrs {
			c.instrMods(fr, ins, m, 0)
		}
	}
	return m
}

// trackedCalledIn: the tracked callees (by name) that the given blocks call, directly or through callees that are inlined.
func (c *FnCtx) trackedCalledIn(blocks []*ssa.BasicBlock, out map[string]bool, depth int, seen map[*ssa.Function]bool) {
	for _, b := range blocks {
		for _, ins := range b.Instrs {
			call, ok := ins.(ssa.CallInstruction)
			if !ok {
				continue
			}
			cc := call.Common()
			if cc.IsInvoke() {
				out[cc.Method.Name()] = true
				continue
			}
			if callee := cc.StaticCallee(); callee != nil {
				out[callee.Name()] = true
				if depth < 3 && !seen[callee] && c.eng.specOf(callee) == nil && c.eng.inlinable(callee) {
					seen[callee] = true
					c.trackedCalledIn(callee.Blocks, out, depth+1, seen)
				}
			}
		}
	}
}

func localKey(fr *Frame, a *ssa.Alloc) string {
	return fmt.Sprintf("%d:%s:%s", fr.id, fr.fn.Name(), a.Name())
}

// instrMods over-approximates what an instruction can write.
func (c *FnCtx) instrMods(fr *Frame, ins ssa.Instruction, m *modSet, depth int) {
	switch i := ins.(type) {
	case *ssa.Store:
		c.addrMods(fr, i.Addr, m)
	case *ssa.MapUpdate:
		if mt, ok := i.Map.Type().Underlying().(*types.Map); ok {
			h, v, l := c.mapHeaps(mt)
			m.comps[h], m.comps[v], m.comps[l] = true, true, true
		}
	case *ssa.Alloc:
		if i.Heap {
			m.alloc = true
		} else if fr != nil {
			m.locals[localKey(fr, i)] = true
		}
	case *ssa.MakeSlice, *ssa.MakeMap, *ssa.MakeChan, *ssa.MakeClosure:
		m.alloc = true
	case *ssa.MakeInterface:
	case *ssa.Send:
		m.comps["ghost$chan$sent"] = true
		for _, k := range c.eng.compOrder {
			if strings.HasPrefix(k, "ghost$chansent$") {
				m.comps[k] = true
			}
		}
	case *ssa.Go:
		// effects of the spawned goroutine are concurrent and not modelled (listed as an assumption)
	case *ssa.Next:
		if fr != nil {
			m.locals[fmt.Sprintf("%d:range:%s", fr.id, i.Iter.Name())] = true
		}
	case *ssa.Select:
		for _, s := range i.States {
			_ = s
		}
		m.comps["ghost$chan$recvd"], m.comps["ghost$chan$sent"] = true, true
		for _, k := range c.eng.compOrder {
			if strings.HasPrefix(k, "ghost$chansent$") {
				m.comps[k] = true
			}
		}
	case *ssa.Call:
		c.callMods(fr, &i.Call, m, depth)
	case *ssa.Defer:
		c.callMods(fr, &i.Call, m, depth)
	case *ssa.UnOp:
		if i.Op == token.ARROW {
			m.comps["ghost$chan$recvd"] = true
		}
	}
}

func (c *FnCtx) addrMods(fr *Frame, addr ssa.Value, m *modSet) {
	switch a := addr.(type) {
	case *ssa.FieldAddr:
		pt := a.X.Type().Underlying().(*types.Pointer).Elem()
		// store into a field of a local struct variable?
		if root, ok := rootAlloc(a.X); ok && !root.Heap && fr != nil {
			m.locals[localKey(fr, root)] = true
			return
		}
		if _, isIdx := a.X.(*ssa.IndexAddr); isIdx {
			c.addrMods(fr, a.X, m)
			return
		}
		m.comps[fieldComp(pt, a.Field)] = true
		c.fieldHeap(pt, a.Field)
	case *ssa.IndexAddr:
		switch xt := a.X.Type().Underlying().(type) {
		case *types.Slice:
			m.comps[c.elemHeap(xt.Elem())] = true
		case *types.Pointer:
			if at, ok := xt.Elem().Underlying().(*types.Array); ok {
				m.comps[c.elemHeap(at.Elem())] = true
			} else {
				m.all = true
			}
		}
	case *ssa.Alloc:
		if !a.Heap && fr != nil {
			m.locals[localKey(fr, a)] = true
		} else {
			t := a.Type().Underlying().(*types.Pointer).Elem()
			if _, isStruct := t.Underlying().(*types.Struct); isStruct {
				if _, op := opaqueSort(t); !op {
					// whole-struct store
					st := t.Underlying().(*types.Struct)
					for k := 0; k < st.NumFields(); k++ {
						m.comps[fieldComp(t, k)] = true
					}
					return
				}
			}
			m.comps[c.cellHeap(t)] = true
		}
	case *ssa.Global:
		m.comps[c.globalComp(a)] = true
	case *ssa.FreeVar, *ssa.Parameter, *ssa.Phi, *ssa.UnOp, *ssa.Call, *ssa.Extract:
		t := addr.Type().Underlying().(*types.Pointer).Elem()
		if stt, isStruct := t.Underlying().(*types.Struct); isStruct {
			if _, op := opaqueSort(t); !op {
				for k := 0; k < stt.NumFields(); k++ {
					m.comps[fieldComp(t, k)] = true
				}
				return
			}
		}
		m.comps[c.cellHeap(t)] = true
	default:
		m.all = true
	}
}

func rootAlloc(v ssa.Value) (*ssa.Alloc, bool) {
	for {
		switch x := v.(type) {
		case *ssa.Alloc:
			return x, true
		case *ssa.FieldAddr:
			v = x.X
		case *ssa.IndexAddr:
			v = x.X
		default:
			return nil, false
		}
	}
}

func (c *FnCtx) callMods(fr *Frame, call *ssa.CallCommon, m *modSet, depth int) {
	if b, ok := call.Value.(*ssa.Builtin); ok {
		switch b.Name() {
		case "append":
			if st, ok := call.Args[0].Type().Underlying().(*types.Slice); ok {
				m.comps[c.elemHeap(st.Elem())] = true
				m.alloc = true
			}
		case "copy":
			if st, ok := call.Args[0].Type().Underlying().(*types.Slice); ok {
				m.comps[c.elemHeap(st.Elem())] = true
			}
		case "delete":
			if mt, ok := call.Args[0].Type().Underlying().(*types.Map); ok {
				h, v, l := c.mapHeaps(mt)
				m.comps[h], m.comps[v], m.comps[l] = true, true, true
			}
		case "close":
			m.comps["ghost$chan$closed"] = true
		}
		return
	}
	callee := call.StaticCallee()
	if callee == nil {
		if mc, ok := call.Value.(*ssa.MakeClosure); ok {
			callee = mc.Fn.(*ssa.Function)
		}
	}
	if callee != nil {
		if c.isTracked(callee) {
			c.trackedGhostMods(callee.Name(), len(call.Args), m)
		}
		c.funcMods(callee, m, depth)
		return
	}
	if typeKey(call.Value.Type()) == "context.CancelFunc" {
		m.comps["ghost$cancelled"] = true
		return
	}
	if call.IsInvoke() {
		if c.isTrackedName(call.Method.Name()) {
			c.trackedGhostMods(call.Method.Name(), len(call.Args)+1, m)
		}
		if mm := c.eng.invokeMods(c, call); mm != nil {
			m.union(mm)
			return
		}
	} else if cb := c.eng.callbackSpec(call.Value.Type()); cb != nil || c.fieldCallback(call.Value) != nil {
		if cb == nil {
			cb = c.fieldCallback(call.Value)
		}
		m.union(c.eng.patternMods(c, cb.Modifies))
		m.alloc = true
		if len(cb.Writes) > 0 {
			m.comps[msgComp] = true
		}
		if cb.Closed {
			// the call is dispatched over the module's own closures of this type: whatever they write may be written
			for _, f := range c.eng.closureCandidates(call.Value.Type()) {
				c.funcMods(f, m, depth+1)
			}
		}
		c.cbGhostMods(m)
		return
	}
	m.all = true
}

// trackedGhostMods: the call-log components a call of the tracked callee writes.
func (c *FnCtx) trackedGhostMods(name string, nargs int, m *modSet) {
	m.comps["ghost$calls$"+name] = true
	m.comps["ghost$calllock$"+name] = true
	m.comps["ghost$callgen$"+name] = true
	for k := 0; k < nargs; k++ {
		m.comps[fmt.Sprintf("ghost$arg$%s$%d", name, k)] = true
		for i := 0; i < 4; i++ {
			m.comps[fmt.Sprintf("ghost$argelem$%s$%d$%d", name, k, i)] = true
		}
	}
	for k := 0; k < 4; k++ {
		m.comps[fmt.Sprintf("ghost$res$%s$%d", name, k)] = true
	}
}

func (c *FnCtx) isTrackedName(name string) bool {
	if c.spec == nil {
		return false
	}
	for _, t := range c.spec.Track {
		if t == name {
			return true
		}
	}
	return false
}

// recordResult: the results of the latest call of a tracked callee, kept as call-log components (so that they merge at
// joins, are forgotten at the head of a loop that makes such calls, and are what a contracted callee's postconditions
// about ITS tracked calls speak about at the call site).
func (c *FnCtx) recordResult(st *State, name string, r *Val) {
	if r == nil {
		return
	}
	vs := r.Tuple
	if len(vs) == 0 {
		vs = []Val{*r}
	}
	for k, v := range vs {
		if v.E == "" || v.T == nil {
			continue
		}
		comp := fmt.Sprintf("ghost$res$%s$%d", name, k)
		c.comp(comp, c.ty.SortOf(v.T), v.T)
		c.trackArgT[comp] = v.T
		st.heap[comp] = v.E
	}
}

func (c *FnCtx) isTracked(fn *ssa.Function) bool {
	if c.spec == nil {
		return false
	}
	for _, t := range c.spec.Track {
		if t == fn.Name() {
			return true
		}
	}
	return false
}

// trackCall: ghost log of calls to the callees the contract tracks (`track Send`): count and latest arguments.
func (c *FnCtx) trackCall(st *State, fn *ssa.Function, args []Val) {
	cnt := c.comp("ghost$calls$"+fn.Name(), "Int")
	c.heapSet(st, cnt, "(+ "+c.heapGet(st, cnt)+" 1)")
	// the locks held (and in which acquisition) at the latest call
	st.heap[c.comp("ghost$calllock$"+fn.Name(), "(Array Int Int)")] = c.sc.Define("calllock", "(Array Int Int)", c.heapGet(st, c.lockComp()))
	st.heap[c.comp("ghost$callgen$"+fn.Name(), "(Array Int Int)")] = c.sc.Define("callgen", "(Array Int Int)", c.heapGet(st, c.lockGenComp()))
	for k, a := range args {
		if a.E == "" {
			continue
		}
		name := fmt.Sprintf("ghost$arg$%s$%d", fn.Name(), k)
		c.comp(name, c.ty.SortOf(a.T), a.T)
		c.trackArgT[name] = a.T
		st.heap[name] = c.sc.Define(name, c.ty.SortOf(a.T), a.E)
		c.snapshotSliceArg(st, fn.Name(), k, a)
	}
}

// snapshotSliceArg: for a slice argument of statically known short length (variadic option lists), the element values
// as they are AT THE CALL are remembered too (lastargelem(F, k, i)): the callee may overwrite the backing array later.
func (c *FnCtx) snapshotSliceArg(st *State, fname string, k int, a Val) {
	slt, ok := a.T.Underlying().(*types.Slice)
	if !ok {
		return
	}
	n := -1
	if ls, ok := c.sliceLen[a.E]; ok {
		if v, err := strconv.Atoi(ls); err == nil && v <= 4 {
			n = v
		}
	}
	// elements not snapshotted at this call (beyond its length, or length unknown) lose what an earlier call recorded
	for i := 0; i < 5; i++ {
		name := fmt.Sprintf("ghost$argelem$%s$%d$%d", fname, k, i)
		if _, had := c.trackArgT[name]; had && i >= n {
			st.heap[name] = c.fresh(name, slt.Elem(), st).E
		}
	}
	h := c.elemHeap(slt.Elem())
	for i := 0; i < n; i++ {
		name := fmt.Sprintf("ghost$argelem$%s$%d$%d", fname, k, i)
		c.comp(name, c.ty.SortOf(slt.Elem()), slt.Elem())
		c.trackArgT[name] = slt.Elem()
		st.heap[name] = c.sc.Define(name, c.ty.SortOf(slt.Elem()), fmt.Sprintf("(select (select %s (s-arr %s)) (+ (s-off %s) %d))", c.heapGet(st, h), a.E, a.E, i))
	}
}

// fieldCallback: callback declaration for a function value read from a struct field (syntactic, for mod-sets).
func (c *FnCtx) fieldCallback(v ssa.Value) *CallbackSpec {
	switch x := v.(type) {
	case *ssa.Field:
		if n, ok := x.X.Type().(*types.Named); ok {
			return c.eng.callbackSpecFor(nil, n.Obj().Name()+"."+x.X.Type().Underlying().(*types.Struct).Field(x.Field).Name())
		}
	case *ssa.UnOp:
		if fa, ok := x.X.(*ssa.FieldAddr); ok {
			pt := fa.X.Type().Underlying().(*types.Pointer).Elem()
			if n, ok := pt.(*types.Named); ok {
				return c.eng.callbackSpecFor(nil, n.Obj().Name()+"."+pt.Underlying().(*types.Struct).Field(fa.Field).Name())
			}
		}
	}
	return nil
}

// cbGhostMods: the ghost call log is written by every callback invocation.
func (c *FnCtx) cbGhostMods(m *modSet) {
	m.comps[c.cbCallsComp()] = true
	m.comps[c.comp("ghost$cbfn", "(Array Int Int)")] = true
	m.comps[c.comp("ghost$cblock", "(Array Int (Array Int Int))")] = true
	m.comps[c.comp("ghost$cblockgen", "(Array Int (Array Int Int))")] = true
	for _, k := range c.eng.compOrder {
		if strings.HasPrefix(k, "ghost$cbres$") || strings.HasPrefix(k, "ghost$cbarg$") {
			m.comps[k] = true
		}
	}
}

// modCacheFor: mod-sets depend on which callees the verified contract tracks, so the cache is per verified function
func (c *FnCtx) modCacheFor() map[*ssa.Function]*modSet {
	if c.modCache == nil {
		c.modCache = map[*ssa.Function]*modSet{}
	}
	return c.modCache
}

func (c *FnCtx) funcMods(fn *ssa.Function, m *modSet, depth int) {
	if mm, ok := c.modCacheFor()[fn]; ok {
		if mm == nil {
			m.all = true // recursion in progress
			return
		}
		m.union(mm)
		return
	}
	if spec := c.eng.specOf(fn); spec != nil && spec.HasMod {
		mm := c.eng.patternMods(c, c.specModPatterns(fn, spec))
		mm.alloc = true
		// `modifies` speaks about program state; the ghost bookkeeping the body advances (callback log, channel
		// sequences, tracked calls, lock generations) changes whatever the clause says
		if _, opaque := spec.Options["opaque"]; opaque {
			// `option opaque`: the callee is a black box that does not call back into functions its callers track
			// (assumed, listed); only what `modifies` names changes
			c.assumed["opaque callee (does not call functions its callers track): "+c.eng.funcName(fn)] = true
		} else if len(fn.Blocks) > 0 && depth <= 6 {
			c.modCacheFor()[fn] = nil
			body := newModSet()
			for _, b := range fn.Blocks {
				for _, ins := range b.Instrs {
					c.instrMods(nil, ins, body, depth+1)
				}
			}
			for k := range body.comps {
				// bookkeeping only: the abstract message contents (ghost$msg) are program state and stay under `modifies`
				if strings.HasPrefix(k, "ghost$cb") || strings.HasPrefix(k, "ghost$chan") || strings.HasPrefix(k, "ghost$calls$") || strings.HasPrefix(k, "ghost$arg$") || strings.HasPrefix(k, "ghost$res$") || k == "ghost$lockgen" || k == "ghost$cancelled" {
					mm.comps[k] = true
				}
			}
			if body.all || bodyCallsUnknown(fn) {
				c.cbGhostMods(mm) // some call of a function value: the callback log advances
			}
		}
		c.modCacheFor()[fn] = mm
		m.union(mm)
		return
	}
	if pm := c.eng.preludeMods(c, fn); pm != nil {
		c.modCacheFor()[fn] = pm
		m.union(pm)
		return
	}
	if !c.eng.inlinable(fn) || depth > 6 {
		m.all = true
		return
	}
	c.modCacheFor()[fn] = nil
	mm := newModSet()
	for _, b := range fn.Blocks {
		for _, ins := range b.Instrs {
			c.instrMods(nil, ins, mm, depth+1)
		}
	}
	for _, an := range fn.AnonFuncs {
		_ = an
	}
	c.modCacheFor()[fn] = mm
	m.union(mm)
}

// ---------- values ----------

func (c *FnCtx) val(fr *Frame, v ssa.Value) Val {
	switch x := v.(type) {
	case *ssa.Const:
		if x.Value == nil {
			return Val{T: x.Type(), E: c.ty.Zero(x.Type())}
		}
		return Val{T: x.Type(), E: c.ty.ConstTerm(x.Type(), x.Value)}
	case *ssa.Function:
		return Val{T: x.Type(), E: c.funcRef(x), Fn: x, Clo: &Closure{Fn: x}}
	case *ssa.Global:
		return c.globalAddr(x)
	case *ssa.Builtin:
		return Val{T: x.Type()}
	case *ssa.FreeVar:
		for k, fv := range fr.fn.FreeVars {
			if fv == x {
				if k < len(fr.free) {
					return fr.free[k]
				}
			}
		}
		c.unsupported("free variable %s unresolved in %s", x.Name(), fr.fn)
	}
	if r, ok := fr.vals[v]; ok {
		return r
	}
	c.unsupported("value %s (%T) used before definition in %s", v.Name(), v, fr.fn)
	return Val{}
}

func (c *FnCtx) funcRef(fn *ssa.Function) string {
	n := q("fn$" + c.eng.funcName(fn))
	c.sc.Decl("clofn", "(declare-fun |clofn| (Int) Int)")
	c.sc.Decl("fn:"+n, fmt.Sprintf("(declare-const %s Int)\n(assert (> %s 0))\n(assert (< %s |alloc0|))\n(assert (= (|clofn| %s) %d))", n, n, n, n, c.eng.fnID(fn)))
	return n
}

func (c *FnCtx) globalAddr(g *ssa.Global) Val {
	t := g.Type().(*types.Pointer).Elem()
	if gi := c.eng.constGlobal(g); gi != nil {
		return Val{T: g.Type(), Loc: &Loc{Kind: locGlobal, Comp: "const:" + g.String(), RootT: t}}
	}
	return Val{T: g.Type(), Loc: &Loc{Kind: locGlobal, Comp: c.globalComp(g), RootT: t}}
}

// ---------- loads and stores ----------

func (c *FnCtx) projectPath(rootT types.Type, root string, path []int) (types.Type, string) {
	t, e := rootT, root
	for _, f := range path {
		si := c.ty.structInfoOf(t)
		e = App(si.fields[f], e)
		t = t.Underlying().(*types.Struct).Field(f).Type()
	}
	return t, e
}

func (c *FnCtx) updatePath(rootT types.Type, root string, path []int, nv string) string {
	if len(path) == 0 {
		return nv
	}
	si := c.ty.structInfoOf(rootT)
	st := rootT.Underlying().(*types.Struct)
	var args []string
	for k := 0; k < st.NumFields(); k++ {
		cur := App(si.fields[k], root)
		if k == path[0] {
			args = append(args, c.updatePath(st.Field(k).Type(), cur, path[1:], nv))
		} else {
			args = append(args, cur)
		}
	}
	return App(si.ctor, args...)
}

func isStructVal(t types.Type) bool {
	if _, ok := opaqueSort(t); ok {
		return false
	}
	_, ok := t.Underlying().(*types.Struct)
	return ok
}

// ptrLoc: interpret a pointer value as a location.
func (c *FnCtx) ptrLoc(st *State, p Val, pos token.Pos) *Loc {
	if p.Loc != nil {
		return p.Loc
	}
	elem := p.T.Underlying().(*types.Pointer).Elem()
	c.nilCheck(st, p.E, pos)
	if isStructVal(elem) {
		return &Loc{Kind: locField, Ref: p.E, RootT: elem, Path: nil, Comp: ""}
	}
	return &Loc{Kind: locCell, Ref: p.E, RootT: elem, Comp: c.cellHeap(elem)}
}

func (c *FnCtx) nilCheck(st *State, ref string, pos token.Pos) {
	if c.nonNil[ref] || strings.HasPrefix(ref, "(|faddr$") {
		return
	}
	o := c.obligation(st, "safe", "nil", "(not (= "+ref+" 0))", pos)
	o.Desc = "nil pointer dereference"
	c.assume(st, "(not (= "+ref+" 0))")
}

// loadStruct reads a whole struct object from the field heaps.
func (c *FnCtx) loadStruct(st *State, t types.Type, ref string) string {
	s := t.Underlying().(*types.Struct)
	si := c.ty.structInfoOf(t)
	var args []string
	for k := 0; k < s.NumFields(); k++ {
		ft := s.Field(k).Type()
		if isStructVal(ft) {
			args = append(args, c.loadStruct(st, ft, c.faddr(t, k, ref)))
		} else {
			args = append(args, "(select "+c.heapGet(st, c.fieldHeap(t, k))+" "+ref+")")
		}
	}
	return App(si.ctor, args...)
}

func (c *FnCtx) storeStruct(st *State, t types.Type, ref string, v string) {
	s := t.Underlying().(*types.Struct)
	si := c.ty.structInfoOf(t)
	for k := 0; k < s.NumFields(); k++ {
		ft := s.Field(k).Type()
		fv := App(si.fields[k], v)
		if isStructVal(ft) {
			c.storeStruct(st, ft, c.faddr(t, k, ref), fv)
		} else {
			h := c.fieldHeap(t, k)
			c.heapSet(st, h, "(store "+c.heapGet(st, h)+" "+ref+" "+fv+")")
		}
	}
}

func (c *FnCtx) load(st *State, l *Loc, resT types.Type) Val {
	switch l.Kind {
	case locField:
		if len(l.Path) == 0 {
			// whole struct object
			return Val{T: l.RootT, E: c.sc.Define("ld", c.ty.SortOf(l.RootT), c.loadStruct(st, l.RootT, l.Ref))}
		}
		f := l.Path[0]
		h := c.fieldHeap(l.RootT, f)
		ft := l.RootT.Underlying().(*types.Struct).Field(f).Type()
		e := "(select " + c.heapGet(st, h) + " " + l.Ref + ")"
		t, e2 := c.projectPath(ft, e, l.Path[1:])
		e2 = c.sc.Define("ld", c.ty.SortOf(t), e2)
		c.assumeLoaded(st, t, e2)
		if _, isIface := t.Underlying().(*types.Interface); isIface && isMessageStruct(l.RootT) {
			// well-formed protobuf messages never hold a typed-nil oneof wrapper
			c.assume(st, "(=> (not (= (i-tag "+e2+") 0)) (not (= (i-val "+e2+") 0)))")
			c.assumed["protobuf messages are well formed: a oneof field never holds a typed-nil wrapper"] = true
		}
		return Val{T: t, E: e2}
	case locCell:
		if v, ok := c.constCell[l.Ref]; ok {
			return v
		}
		e := c.sc.Define("ld", c.ty.SortOf(l.RootT), "(select "+c.heapGet(st, l.Comp)+" "+l.Ref+")")
		c.assumeLoaded(st, l.RootT, e)
		return Val{T: l.RootT, E: e}
	case locLocal:
		root, ok := st.locals[l.Local]
		if !ok {
			c.unsupported("local %s read before initialisation", l.Local)
		}
		if len(l.Path) == 0 {
			return root
		}
		t, e := c.projectPath(l.RootT, root.E, l.Path)
		return Val{T: t, E: e}
	case locElem:
		root := "(select (select " + c.heapGet(st, l.Comp) + " " + l.Ref + ") " + l.Idx + ")"
		t, e := c.projectPath(l.RootT, root, l.Path)
		e = c.sc.Define("ld", c.ty.SortOf(t), e)
		c.assumeLoaded(st, t, e)
		return Val{T: t, E: e}
	case locGlobal:
		if strings.HasPrefix(l.Comp, "const:") {
			return c.eng.constGlobalVal(c, st, l.Comp)
		}
		root := c.heapGet(st, l.Comp)
		t, e := c.projectPath(l.RootT, root, l.Path)
		c.assumeLoaded(st, t, e)
		return Val{T: t, E: e}
	}
	c.unsupported("load")
	return Val{}
}

func (c *FnCtx) store(st *State, l *Loc, v Val, pos token.Pos) {
	c.eng.onStore(c, st, l, v, pos)
	switch l.Kind {
	case locField:
		if len(l.Path) == 0 {
			c.storeStruct(st, l.RootT, l.Ref, v.E)
			return
		}
		f := l.Path[0]
		h := c.fieldHeap(l.RootT, f)
		ft := l.RootT.Underlying().(*types.Struct).Field(f).Type()
		cur := "(select " + c.heapGet(st, h) + " " + l.Ref + ")"
		nv := c.updatePath(ft, cur, l.Path[1:], v.E)
		c.heapSet(st, h, "(store "+c.heapGet(st, h)+" "+l.Ref+" "+nv+")")
	case locCell:
		c.heapSet(st, l.Comp, "(store "+c.heapGet(st, l.Comp)+" "+l.Ref+" "+v.E+")")
		if c.writeOnce[l.Ref] {
			c.constCell[l.Ref] = v
		}
	case locLocal:
		if len(l.Path) == 0 {
			nv := v
			nv.T = l.RootT
			st.locals[l.Local] = nv
			return
		}
		root := st.locals[l.Local]
		ne := c.updatePath(l.RootT, root.E, l.Path, v.E)
		st.locals[l.Local] = Val{T: l.RootT, E: c.sc.Define("loc", c.ty.SortOf(l.RootT), ne)}
	case locElem:
		h := c.heapGet(st, l.Comp)
		cur := "(select (select " + h + " " + l.Ref + ") " + l.Idx + ")"
		nv := c.updatePath(l.RootT, cur, l.Path, v.E)
		c.heapSet(st, l.Comp, "(store "+h+" "+l.Ref+" (store (select "+h+" "+l.Ref+") "+l.Idx+" "+nv+"))")
	case locGlobal:
		if strings.HasPrefix(l.Comp, "const:") {
			c.unsupported("store to init-only global")
		}
		root := c.heapGet(st, l.Comp)
		c.heapSet(st, l.Comp, c.updatePath(l.RootT, root, l.Path, v.E))
	}
}

// ptrTerm forces a pointer value into an SMT term (needed when it escapes).
func (c *FnCtx) ptrTerm(v Val) string {
	if v.E != "" {
		return v.E
	}
	if v.Loc != nil {
		switch v.Loc.Kind {
		case locField:
			if len(v.Loc.Path) == 1 {
				return c.scalarFaddr(v.Loc.RootT, v.Loc.Path[0], v.Loc.Ref)
			}
			if len(v.Loc.Path) == 0 {
				return v.Loc.Ref
			}
		}
	}
	c.unsupported("address of a local/element escapes")
	return ""
}

func (c *FnCtx) scalarFaddr(structT types.Type, field int, ref string) string {
	return c.faddr(structT, field, ref)
}

// bodyCallsUnknown: the function (not looking into callees) calls a function value or interface method.
func bodyCallsUnknown(fn *ssa.Function) bool {
	for _, b := range fn.Blocks {
		for _, ins := range b.Instrs {
			if call, ok := ins.(ssa.CallInstruction); ok {
				cc := call.Common()
				if cc.IsInvoke() {
					return true
				}
				switch cc.Value.(type) {
				case *ssa.Function, *ssa.Builtin, *ssa.MakeClosure:
				default:
					return true
				}
			}
		}
	}
	return false
}
