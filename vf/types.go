package main

// Go types -> SMT sorts, heap components, type invariants.

import (
	"fmt"
	"go/constant"
	"go/types"
	"math/big"
	"sort"
	"strings"
)

const (
	nilSlice = "(mk-slice 0 0 0 0)"
	nilIface = "(mk-iface 0 0)"
)

const (
	sInt   = "Int"
	sBool  = "Bool"
	sSlice = "Slice"
	sIface = "Iface"
	sFlt   = "Flt"
)

type preludeChunk struct {
	syms []string
	text string
}

// preludeText returns the prelude needed by a query: quantified axioms are only included when the
// function they constrain occurs, so that queries over integers/structs stay quantifier-free (solvers
// then return real counter-models instead of unknown).
func preludeText(query string) string {
	var b strings.Builder
	for _, ch := range preludeChunks {
		need := true
		if strings.HasPrefix(ch.text, "(declare-fun") {
			need = strings.Contains(query, ch.syms[0])
		} else if strings.HasPrefix(ch.syms[0], "ASSERT:") {
			need = strings.Contains(query, strings.TrimPrefix(ch.syms[0], "ASSERT:"))
		}
		if need {
			b.WriteString(ch.text)
			b.WriteByte('\n')
		}
	}
	return b.String()
}

var preludeChunks = []preludeChunk{
	{[]string{"Slice", "declare-datatypes", "mk-slice", "s-arr", "s-off", "s-len", "s-cap"}, `(declare-datatypes ((Slice 0)) (((mk-slice (s-arr Int) (s-off Int) (s-len Int) (s-cap Int)))))`},
	{[]string{"Iface", "declare-datatypes", "mk-iface", "i-tag", "i-val"}, `(declare-datatypes ((Iface 0)) (((mk-iface (i-tag Int) (i-val Int)))))`},
	{[]string{"Flt", "declare-datatypes", "fin", "fv", "nan", "pinf", "ninf"}, `(declare-datatypes ((Flt 0)) (((fin (fv Real)) (nan) (pinf) (ninf))))`},
	{[]string{nilSlice}, `(define-fun nil-slice () Slice (mk-slice 0 0 0 0))`},
	{[]string{nilIface}, `(define-fun nil-iface () Iface (mk-iface 0 0))`},
	{[]string{"wrap64"}, `(define-fun wrap64 ((x Int)) Int (ite (and (<= (- 9223372036854775808) x) (<= x 9223372036854775807)) x (- (mod (+ x 9223372036854775808) 18446744073709551616) 9223372036854775808)))`},
	{[]string{"wrap32"}, `(define-fun wrap32 ((x Int)) Int (ite (and (<= (- 2147483648) x) (<= x 2147483647)) x (- (mod (+ x 2147483648) 4294967296) 2147483648)))`},
	{[]string{"wrap16"}, `(define-fun wrap16 ((x Int)) Int (- (mod (+ x 32768) 65536) 32768))`},
	{[]string{"wrap8"}, `(define-fun wrap8 ((x Int)) Int (- (mod (+ x 128) 256) 128))`},
	{[]string{"wrapu64"}, `(define-fun wrapu64 ((x Int)) Int (ite (and (<= 0 x) (<= x 18446744073709551615)) x (mod x 18446744073709551616)))`},
	{[]string{"wrapu32"}, `(define-fun wrapu32 ((x Int)) Int (ite (and (<= 0 x) (<= x 4294967295)) x (mod x 4294967296)))`},
	{[]string{"wrapu16"}, `(define-fun wrapu16 ((x Int)) Int (mod x 65536))`},
	{[]string{"wrapu8"}, `(define-fun wrapu8 ((x Int)) Int (mod x 256))`},
	{[]string{"godiv"}, `(define-fun godiv ((x Int) (y Int)) Int (ite (>= x 0) (ite (> y 0) (div x y) (- (div x (- y)))) (ite (> y 0) (- (div (- x) y)) (div (- x) (- y)))))`},
	{[]string{"gorem"}, `(define-fun gorem ((x Int) (y Int)) Int (- x (* y (godiv x y))))`},
	{[]string{"strlen"}, `(declare-fun strlen (Int) Int)`},
	{[]string{"strcat"}, `(declare-fun strcat (Int Int) Int)`},
	{[]string{"ASSERT:strlen"}, `(assert (= (strlen 0) 0))`},
	{[]string{"ASSERT:strlen"}, `(assert (forall ((s Int)) (! (and (>= (strlen s) 0) (<= (strlen s) 4611686018427387904) (=> (and (>= s 0) (= (strlen s) 0)) (= s 0))) :pattern ((strlen s)))))`},
	{[]string{"fis-fin"}, `(define-fun fis-fin ((x Flt)) Bool ((_ is fin) x))`},
	{[]string{"fneg"}, `(define-fun fneg ((x Flt)) Flt (ite ((_ is fin) x) (fin (- (fv x))) (ite ((_ is pinf) x) ninf (ite ((_ is ninf) x) pinf nan))))`},
	{[]string{"fabs"}, `(define-fun fabs ((x Flt)) Flt (ite ((_ is fin) x) (fin (ite (< (fv x) 0.0) (- (fv x)) (fv x))) (ite ((_ is nan) x) nan pinf)))`},
	{[]string{"fadd"}, `(define-fun fadd ((x Flt) (y Flt)) Flt
  (ite (or ((_ is nan) x) ((_ is nan) y)) nan
  (ite (and ((_ is fin) x) ((_ is fin) y)) (fin (+ (fv x) (fv y)))
  (ite ((_ is fin) x) y
  (ite ((_ is fin) y) x
  (ite (= x y) x nan))))))`},
	{[]string{"fsub"}, `(define-fun fsub ((x Flt) (y Flt)) Flt (fadd x (fneg y)))`},
	{[]string{"fmul"}, `(define-fun fmul ((x Flt) (y Flt)) Flt
  (ite (or ((_ is nan) x) ((_ is nan) y)) nan
  (ite (and ((_ is fin) x) ((_ is fin) y)) (fin (* (fv x) (fv y)))
  (ite (or (and ((_ is fin) x) (= (fv x) 0.0)) (and ((_ is fin) y) (= (fv y) 0.0))) nan
  (ite (= (or ((_ is ninf) x) (and ((_ is fin) x) (< (fv x) 0.0))) (or ((_ is ninf) y) (and ((_ is fin) y) (< (fv y) 0.0)))) pinf ninf)))))`},
	{[]string{"flt"}, `(define-fun flt ((x Flt) (y Flt)) Bool
  (ite (or ((_ is nan) x) ((_ is nan) y)) false
  (ite (and ((_ is fin) x) ((_ is fin) y)) (< (fv x) (fv y))
  (ite ((_ is ninf) x) (not ((_ is ninf) y))
  (ite ((_ is pinf) y) (not ((_ is pinf) x)) false)))))`},
	{[]string{"feq"}, `(define-fun feq ((x Flt) (y Flt)) Bool (and (not ((_ is nan) x)) (not ((_ is nan) y)) (= x y)))`},
	{[]string{"fle"}, `(define-fun fle ((x Flt) (y Flt)) Bool (or (flt x y) (feq x y)))`},
	{[]string{"fmin"}, `(define-fun fmin ((x Flt) (y Flt)) Flt (ite (or ((_ is nan) x) ((_ is nan) y)) nan (ite (flt x y) x y)))`},
	{[]string{"fmax"}, `(define-fun fmax ((x Flt) (y Flt)) Flt (ite (or ((_ is nan) x) ((_ is nan) y)) nan (ite (flt x y) y x)))`},
	{[]string{"fdivfin"}, `(declare-fun fdivfin (Real Real) Real)`},
	{[]string{"fdiv"}, `(define-fun fdiv ((x Flt) (y Flt)) Flt
  (ite (or ((_ is nan) x) ((_ is nan) y)) nan
  (ite (and ((_ is fin) x) ((_ is fin) y))
       (ite (= (fv y) 0.0) (ite (= (fv x) 0.0) nan (ite (> (fv x) 0.0) pinf ninf)) (fin (/ (fv x) (fv y))))
  (ite ((_ is fin) x) (fin 0.0)
  (ite ((_ is fin) y) (ite (= ((_ is pinf) x) (>= (fv y) 0.0)) pinf ninf) nan)))))`},
	{[]string{"box-Slice"}, `(declare-fun box-Slice (Slice) Int)`},
	{[]string{"unbox-Slice"}, `(declare-fun unbox-Slice (Int) Slice)`},
	{[]string{"ASSERT:unbox-Slice"}, `(assert (forall ((s Slice)) (! (= (unbox-Slice (box-Slice s)) s) :pattern ((box-Slice s)))))`},
	{[]string{"box-Flt"}, `(declare-fun box-Flt (Flt) Int)`},
	{[]string{"unbox-Flt"}, `(declare-fun unbox-Flt (Int) Flt)`},
	{[]string{"ASSERT:unbox-Flt"}, `(assert (forall ((s Flt)) (! (= (unbox-Flt (box-Flt s)) s) :pattern ((box-Flt s)))))`},
	{[]string{"box-Bool"}, `(declare-fun box-Bool (Bool) Int)`},
	{[]string{"unbox-Bool"}, `(declare-fun unbox-Bool (Int) Bool)`},
	{[]string{"ASSERT:unbox-Bool"}, `(assert (forall ((s Bool)) (! (= (unbox-Bool (box-Bool s)) s) :pattern ((box-Bool s)))))`},
	{[]string{"box-Iface"}, `(declare-fun box-Iface (Iface) Int)`},
	{[]string{"unbox-Iface"}, `(declare-fun unbox-Iface (Int) Iface)`},
	{[]string{"ASSERT:unbox-Iface"}, `(assert (forall ((s Iface)) (! (= (unbox-Iface (box-Iface s)) s) :pattern ((box-Iface s)))))`},
}

type Types struct {
	sc       *Script
	structs  map[string]*structInfo // sort name -> info
	typeIDs  map[string]int
	typeByID map[int]types.Type
	strLits  map[string]string
	strOrder []string
}

type structInfo struct {
	sort   string
	st     *types.Struct
	fields []string // selector names
	ctor   string
	tname  string
}

func NewTypes(sc *Script) *Types {
	t := &Types{sc: sc, structs: map[string]*structInfo{}, typeIDs: map[string]int{}, typeByID: map[int]types.Type{}, strLits: map[string]string{}}
	return t
}

func typeKey(t types.Type) string {
	return types.TypeString(t, func(p *types.Package) string { return p.Path() })
}

func shortTypeName(t types.Type) string {
	return types.TypeString(t, func(p *types.Package) string { return p.Name() })
}

// isOpaqueNamed: named struct types that are modelled as a scalar.
func opaqueSort(t types.Type) (string, bool) {
	switch typeKey(t) {
	case "time.Time":
		return sInt, true
	case "google.golang.org/protobuf/reflect/protoreflect.Value":
		return sInt, true
	case "reflect.Value":
		return sInt, true
	}
	return "", false
}

func (ty *Types) SortOf(t types.Type) string {
	if s, ok := opaqueSort(t); ok {
		return s
	}
	switch u := t.Underlying().(type) {
	case *types.Basic:
		switch {
		case u.Info()&types.IsBoolean != 0:
			return sBool
		case u.Info()&types.IsFloat != 0:
			return sFlt
		case u.Kind() == types.UntypedNil:
			return sInt
		default:
			return sInt
		}
	case *types.Pointer, *types.Map, *types.Chan, *types.Signature:
		return sInt
	case *types.Slice:
		return sSlice
	case *types.Interface:
		return sIface
	case *types.Struct:
		return ty.structSort(t)
	case *types.Array:
		return "(Array Int " + ty.SortOf(u.Elem()) + ")"
	case *types.Tuple:
		return "TUPLE"
	}
	panic(unsupported("sort of type " + t.String()))
}

func (ty *Types) structSort(t types.Type) string {
	key := typeKey(t)
	name := "S$" + sanitize(shortTypeName(t))
	if si, ok := ty.structs[key]; ok {
		return si.sort
	}
	// disambiguate equal short names from different packages
	for _, si := range ty.structs {
		if si.sort == q(name) {
			name = "S$" + sanitize(key)
		}
	}
	st := t.Underlying().(*types.Struct)
	si := &structInfo{sort: q(name), st: st, tname: name}
	ty.structs[key] = si
	var fdecl []string
	for i := 0; i < st.NumFields(); i++ {
		f := st.Field(i)
		sel := q(fmt.Sprintf("%s.%s", name, f.Name()))
		if f.Name() == "_" {
			sel = q(fmt.Sprintf("%s._%d", name, i))
		}
		si.fields = append(si.fields, sel)
		fdecl = append(fdecl, fmt.Sprintf("(%s %s)", sel, ty.SortOf(f.Type())))
	}
	si.ctor = q("mk$" + name)
	if len(fdecl) == 0 {
		ty.sc.Decl("struct:"+key, fmt.Sprintf("(declare-datatypes ((%s 0)) (((%s))))", si.sort, si.ctor))
	} else {
		ty.sc.Decl("struct:"+key, fmt.Sprintf("(declare-datatypes ((%s 0)) (((%s %s))))", si.sort, si.ctor, strings.Join(fdecl, " ")))
	}
	return si.sort
}

func (ty *Types) structInfoOf(t types.Type) *structInfo {
	ty.structSort(t)
	return ty.structs[typeKey(t)]
}

// TypeID gives every Go type a distinct positive tag for interface values.
func (ty *Types) TypeID(t types.Type) int {
	k := typeKey(t)
	if id, ok := ty.typeIDs[k]; ok {
		return id
	}
	id := len(ty.typeIDs) + 1
	ty.typeIDs[k] = id
	ty.typeByID[id] = t
	return id
}

// Zero value term for a type.
func (ty *Types) Zero(t types.Type) string {
	if s, ok := opaqueSort(t); ok && s == sInt {
		return "0"
	}
	switch u := t.Underlying().(type) {
	case *types.Basic:
		switch {
		case u.Info()&types.IsBoolean != 0:
			return "false"
		case u.Info()&types.IsFloat != 0:
			return "(fin 0.0)"
		default:
			return "0"
		}
	case *types.Pointer, *types.Map, *types.Chan, *types.Signature:
		return "0"
	case *types.Slice:
		return nilSlice
	case *types.Interface:
		return nilIface
	case *types.Struct:
		si := ty.structInfoOf(t)
		if u.NumFields() == 0 {
			return si.ctor
		}
		var args []string
		for i := 0; i < u.NumFields(); i++ {
			args = append(args, ty.Zero(u.Field(i).Type()))
		}
		return App(si.ctor, args...)
	case *types.Array:
		return fmt.Sprintf("((as const (Array Int %s)) %s)", ty.SortOf(u.Elem()), ty.Zero(u.Elem()))
	}
	panic(unsupported("zero of " + t.String()))
}

func intRange(b *types.Basic) (lo, hi string, ok bool) {
	switch b.Kind() {
	case types.Int, types.Int64:
		return "(- 9223372036854775808)", "9223372036854775807", true
	case types.Int32:
		return "(- 2147483648)", "2147483647", true
	case types.Int16:
		return "(- 32768)", "32767", true
	case types.Int8:
		return "(- 128)", "127", true
	case types.Uint, types.Uint64, types.Uintptr:
		return "0", "18446744073709551615", true
	case types.Uint32:
		return "0", "4294967295", true
	case types.Uint16:
		return "0", "65535", true
	case types.Uint8:
		return "0", "255", true
	}
	return "", "", false
}

func wrapFn(b *types.Basic) string {
	switch b.Kind() {
	case types.Int, types.Int64:
		return "wrap64"
	case types.Int32:
		return "wrap32"
	case types.Int16:
		return "wrap16"
	case types.Int8:
		return "wrap8"
	case types.Uint, types.Uint64, types.Uintptr:
		return "wrapu64"
	case types.Uint32:
		return "wrapu32"
	case types.Uint16:
		return "wrapu16"
	case types.Uint8:
		return "wrapu8"
	}
	return ""
}

// Inv returns the type invariant of a term of the given type (what every real value satisfies).
func (ty *Types) Inv(t types.Type, e string) string {
	if _, ok := opaqueSort(t); ok {
		return "true"
	}
	switch u := t.Underlying().(type) {
	case *types.Basic:
		if u.Kind() == types.String {
			return "(>= " + e + " 0)"
		}
		if lo, hi, ok := intRange(u); ok {
			return "(and (<= " + lo + " " + e + ") (<= " + e + " " + hi + "))"
		}
	case *types.Pointer, *types.Map, *types.Chan, *types.Signature:
		return "(>= " + e + " 0)"
	case *types.Slice:
		return fmt.Sprintf("(and (>= (s-arr %[1]s) 0) (>= (s-off %[1]s) 0) (<= 0 (s-len %[1]s)) (<= (s-len %[1]s) (s-cap %[1]s)) (<= (s-cap %[1]s) 4611686018427387904) (=> (= (s-arr %[1]s) 0) (= (s-cap %[1]s) 0)))", e)
	case *types.Interface:
		return fmt.Sprintf("(and (>= (i-tag %[1]s) 0) (=> (= (i-tag %[1]s) 0) (= (i-val %[1]s) 0)))", e)
	case *types.Struct:
		si := ty.structInfoOf(t)
		var cs []string
		for i := 0; i < u.NumFields(); i++ {
			cs = append(cs, ty.Inv(u.Field(i).Type(), App(si.fields[i], e)))
		}
		return And(cs...)
	}
	return "true"
}

// StrLit registers a string literal as a distinct constant, ordered like the real strings.
func (ty *Types) StrLit(v string) string {
	if v == "" {
		return "0"
	}
	if n, ok := ty.strLits[v]; ok {
		return n
	}
	n := q(fmt.Sprintf("str$%d$%s", len(ty.strLits), sanitize(trunc(v, 24))))
	ty.strLits[v] = n
	ty.sc.decls = append(ty.sc.decls, fmt.Sprintf("(declare-const %s Int)", n))
	ty.sc.decls = append(ty.sc.decls, fmt.Sprintf("(assert (> %s 0))", n))
	ty.sc.decls = append(ty.sc.decls, fmt.Sprintf("(assert (= (strlen %s) %d))", n, len(v)))
	for _, o := range ty.strOrder {
		on := ty.strLits[o]
		if o < v {
			ty.sc.decls = append(ty.sc.decls, fmt.Sprintf("(assert (< %s %s))", on, n))
		} else {
			ty.sc.decls = append(ty.sc.decls, fmt.Sprintf("(assert (< %s %s))", n, on))
		}
	}
	ty.strOrder = append(ty.strOrder, v)
	sort.Strings(ty.strOrder)
	return n
}

func trunc(s string, n int) string {
	if len(s) > n {
		return s[:n]
	}
	return s
}

func (ty *Types) ConstTerm(t types.Type, c constant.Value) string {
	if c == nil {
		return ty.Zero(t)
	}
	switch u := t.Underlying().(type) {
	case *types.Basic:
		switch {
		case u.Info()&types.IsBoolean != 0:
			if constant.BoolVal(c) {
				return "true"
			}
			return "false"
		case u.Info()&types.IsString != 0:
			return ty.StrLit(constant.StringVal(c))
		case u.Info()&types.IsFloat != 0:
			return "(fin " + ratTerm(c) + ")"
		case u.Info()&types.IsInteger != 0:
			return bigIntTerm(c)
		}
	}
	panic(unsupported("constant of type " + t.String()))
}

func bigIntTerm(c constant.Value) string {
	iv := constant.ToInt(c)
	s := iv.ExactString()
	if strings.HasPrefix(s, "-") {
		return "(- " + s[1:] + ")"
	}
	return s
}

func ratTerm(c constant.Value) string {
	fv := constant.ToFloat(c)
	if fv.Kind() == constant.Unknown {
		panic(unsupported("float constant"))
	}
	var r *big.Rat
	switch v := constant.Val(fv).(type) {
	case *big.Rat:
		r = v
	case *big.Float:
		r, _ = v.Rat(nil)
	case int64:
		r = new(big.Rat).SetInt64(v)
	case *big.Int:
		r = new(big.Rat).SetInt(v)
	default:
		f, _ := constant.Float64Val(fv)
		r = new(big.Rat).SetFloat64(f)
	}
	num, den := r.Num(), r.Denom()
	neg := num.Sign() < 0
	n := new(big.Int).Abs(num).String()
	t := "(/ " + n + ".0 " + den.String() + ".0)"
	if den.IsInt64() && den.Int64() == 1 {
		t = n + ".0"
	}
	if neg {
		return "(- " + t + ")"
	}
	return t
}

type unsupported string

func (u unsupported) Error() string { return "outside the supported subset: " + string(u) }
