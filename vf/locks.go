package main

// Lock ghost state and the guarded-by discipline (C11), interference mode (C02/C03/C10).
//
//   ghost$lock[m] = 0 free | n>0 read-held n times by this goroutine | -1 write-held by this goroutine
//
// `//@ type T` + `guarded_by mu: f1, f2, sub.g` declares which fields a mutex protects.  Every load of such a field is
// an obligation "mu is held (R or W)", every store "mu is held for writing", on every path, in every function under
// contract that touches it.  Values loaded from guarded fields remember their guard: map reads/writes through them
// and mutating method calls on them are checked too.
//
// INT mode: every acquisition havocs the guarded fields of that object (other goroutines may have changed them while
// the lock was free) and assumes the declared lock invariant; every release asserts it.

import (
	"fmt"
	"go/token"
	"go/types"
	"regexp"
	"strings"

	"golang.org/x/tools/go/ssa"
)

func (c *FnCtx) lockComp() string { return c.comp("ghost$lock", "(Array Int Int)") }

func (c *FnCtx) lockState(st *State, m string) string {
	return "(select " + c.heapGet(st, c.lockComp()) + " " + m + ")"
}

// ghost$lockgen[m]: how many times this goroutine has acquired m so far (two events with the same generation while m
// is held happened inside one critical section)
func (c *FnCtx) lockGenComp() string { return c.comp("ghost$lockgen", "(Array Int Int)") }

func (c *FnCtx) bumpLockGen(st *State, m string) {
	h := c.lockGenComp()
	H := c.heapGet(st, h)
	c.heapSet(st, h, "(store "+H+" "+m+" (+ (select "+H+" "+m+") 1))")
}

func (c *FnCtx) setLock(st *State, m, v string) {
	h := c.lockComp()
	c.heapSet(st, h, "(store "+c.heapGet(st, h)+" "+m+" "+v+")")
}

type guardInfo struct {
	mu     string // mutex address term
	owner  string // owning object
	ownerT types.Type
	sub    []string // fields of a sub-object guarded by the owner's mutex
}

func (e *Engine) typeSpecOf(t types.Type) *TypeSpec {
	n, ok := t.(*types.Named)
	if !ok || n.Obj().Pkg() == nil {
		return nil
	}
	return e.specs.Types[n.Obj().Pkg().Path()+"."+n.Obj().Name()]
}

func fieldIndex(t types.Type, name string) int {
	st, ok := t.Underlying().(*types.Struct)
	if !ok {
		return -1
	}
	for i := 0; i < st.NumFields(); i++ {
		if st.Field(i).Name() == name {
			return i
		}
	}
	return -1
}

// guardFor: which mutex guards field `field` of the object at l (nil if none).
func (c *FnCtx) guardFor(l *Loc) (mu string, what string) {
	if l.Kind != locField || len(l.Path) == 0 {
		return "", ""
	}
	fname := l.RootT.Underlying().(*types.Struct).Field(l.Path[0]).Name()
	if ts := c.eng.typeSpecOf(l.RootT); ts != nil {
		for muName, fields := range ts.Guarded {
			for _, f := range fields {
				if f == fname {
					if mi := fieldIndex(l.RootT, muName); mi >= 0 {
						return c.faddr(l.RootT, mi, l.Ref), shortTypeName(l.RootT) + "." + fname
					}
				}
			}
		}
	}
	if g, ok := c.guardSub[l.Ref]; ok {
		for _, f := range g.sub {
			if f == fname {
				return g.mu, shortTypeName(g.ownerT) + "." + shortTypeName(l.RootT) + "." + fname
			}
		}
	}
	return "", ""
}

func (c *FnCtx) guardLoad(st *State, l *Loc, pos token.Pos) string {
	mu, what := c.guardFor(l)
	if mu == "" {
		return ""
	}
	o := c.obligation(st, "guard", "R."+what, Or("(>= "+l.Ref+" |alloc0|)", "(not (= "+c.lockState(st, mu)+" 0))"), pos)
	o.Desc = "read of " + what + " without holding its mutex (objects allocated by this very call are exempt)"
	return mu
}

func (c *FnCtx) guardStore(st *State, l *Loc, pos token.Pos) {
	mu, what := c.guardFor(l)
	if mu == "" {
		return
	}
	o := c.obligation(st, "guard", "W."+what, Or("(>= "+l.Ref+" |alloc0|)", "(= "+c.lockState(st, mu)+" (- 1))"), pos)
	o.Desc = "write of " + what + " without holding its mutex for writing (objects allocated by this very call are exempt)"
}

// afterGuardedLoad: remember the guard of values loaded from guarded fields, and of sub-objects.
func (c *FnCtx) afterGuardedLoad(st *State, l *Loc, v *Val, mu string) {
	if l.Kind != locField || len(l.Path) == 0 {
		return
	}
	fname := l.RootT.Underlying().(*types.Struct).Field(l.Path[0]).Name()
	if mu != "" {
		v.Guard = mu
		switch c.ty.SortOf(v.T) {
		case sInt:
			c.guardOf[v.E] = mu
		case sSlice:
			c.guardOf["(s-arr "+v.E+")"] = mu // the shared backing array is guarded too
		}
	}
	// sub-object whose fields are guarded by the owner's mutex: "sub.g"
	if ts := c.eng.typeSpecOf(l.RootT); ts != nil {
		for muName, fields := range ts.Guarded {
			var subs []string
			for _, f := range fields {
				if strings.HasPrefix(f, fname+".") {
					subs = append(subs, strings.TrimPrefix(f, fname+"."))
				}
			}
			if len(subs) > 0 {
				if mi := fieldIndex(l.RootT, muName); mi >= 0 {
					c.guardSub[v.E] = &guardInfo{mu: c.faddr(l.RootT, mi, l.Ref), owner: l.Ref, ownerT: l.RootT, sub: subs}
				}
			}
		}
	}
}

var readOnlyMethods = map[string]bool{"Now": true, "String": true, "Error": true, "Compare": true, "Len": true, "ProtoReflect": true, "Err": true, "Done": true, "Value": true, "Deadline": true}

func (c *FnCtx) guardInvoke(st *State, recv Val, m *types.Func, pos token.Pos) {
	if recv.Guard == "" || readOnlyMethods[m.Name()] {
		return
	}
	o := c.obligation(st, "guard", "W.call."+m.Name(), "(= "+c.lockState(st, recv.Guard)+" (- 1))", pos)
	o.Desc = "method " + m.Name() + " may mutate an object that is protected by a mutex, but the mutex is not held for writing"
}

var faddrRe = regexp.MustCompile(`^\(\|faddr\$([^|$]+)\$([^|]+)\| (.*)\)$`)

// interference at lock acquisition (INT mode): the guarded fields of the owner are arbitrary again.
func (c *FnCtx) onAcquire(st *State, mu string, pos token.Pos) {
	if c.mode != "INT" {
		return
	}
	m := faddrRe.FindStringSubmatch(c.sc.Expand(mu))
	if m == nil {
		return
	}
	owner := m[3]
	var ts *TypeSpec
	for _, t := range c.eng.specs.Types {
		if shortName(t.Pkg)+"."+t.Name == m[1] {
			ts = t
		}
	}
	if ts == nil {
		return
	}
	ot := c.eng.resolveType(ts.Pkg, ts.Name)
	if ot == nil {
		return
	}
	for _, f := range ts.Guarded[m[2]] {
		if strings.Contains(f, ".") {
			continue
		}
		fi := fieldIndex(ot, f)
		if fi < 0 {
			continue
		}
		h := c.fieldHeap(ot, fi)
		ft := ot.Underlying().(*types.Struct).Field(fi).Type()
		nv := c.fresh("interf$"+f, ft, st)
		c.heapSet(st, h, "(store "+c.heapGet(st, h)+" "+owner+" "+nv.E+")")
		if mt, isMap := ft.Underlying().(*types.Map); isMap {
			// the map object is the same, its contents may have changed
			H := c.heapGet(st, h)
			_ = H
			has, val, ln := c.mapHeaps(mt)
			for _, mh := range []string{has, val, ln} {
				srt := c.eng.comps[mh]
				inner := strings.TrimSuffix(strings.TrimPrefix(srt, "(Array Int "), ")")
				fv := c.sc.Fresh("interf$"+mh, inner)
				c.heapSet(st, mh, "(store "+c.heapGet(st, mh)+" "+nv.E+" "+fv+")")
			}
			c.assume(st, "(not (= "+nv.E+" 0))")
		}
	}
	c.assumed["interference: every lock acquisition forgets the state the lock guards (other lock-respecting goroutines)"] = true
	for _, inv := range ts.LockInv[m[2]] {
		env := c.newEnv(nil, st, st)
		env.specPkg = ts.Pkg
		env.names["recv"] = Val{T: types.NewPointer(ot), E: owner}
		c.assume(st, c.evalBool(env, inv.E))
	}
}

func (c *FnCtx) onRelease(st *State, mu string, pos token.Pos) {
	if c.mode != "INT" {
		return
	}
	m := faddrRe.FindStringSubmatch(c.sc.Expand(mu))
	if m == nil {
		return
	}
	for _, t := range c.eng.specs.Types {
		if shortName(t.Pkg)+"."+t.Name != m[1] {
			continue
		}
		ot := c.eng.resolveType(t.Pkg, t.Name)
		for k, inv := range t.LockInv[m[2]] {
			env := c.newEnv(nil, st, st)
			env.specPkg = t.Pkg
			env.names["recv"] = Val{T: types.NewPointer(ot), E: m[3]}
			o := c.obligation(st, "lockinv", fmt.Sprintf("%s.%s.%d", t.Name, m[2], k), c.evalBool(env, inv.E), pos)
			o.Desc = "lock invariant re-established at release: " + inv.Text
		}
		// a channel held in a guarded field is protected by the lock too: once this goroutine lets go of the lock
		// completely, another goroutine may close it (a value copied out of the field earlier is no longer safe to send on)
		if ot == nil {
			continue
		}
		for _, f := range t.Guarded[m[2]] {
			fi := fieldIndex(ot, f)
			if fi < 0 {
				continue
			}
			ft := ot.Underlying().(*types.Struct).Field(fi).Type()
			if _, isChan := ft.Underlying().(*types.Chan); !isChan {
				continue
			}
			ch := "(select " + c.heapGet(st, c.fieldHeap(ot, fi)) + " " + m[3] + ")"
			C := c.heapGet(st, c.chClosed())
			mayClose := c.sc.Fresh("interf$closed", sBool)
			c.heapSet(st, c.chClosed(), "(store "+C+" "+ch+" (or (select "+C+" "+ch+") "+mayClose+"))")
			c.assumed["interference: a channel stored in a lock-guarded field may be closed by others once the lock is released"] = true
		}
	}
}

func shortName(pkgPath string) string {
	if k := strings.LastIndex(pkgPath, "/"); k >= 0 {
		return pkgPath[k+1:]
	}
	return pkgPath
}

func init() {
	lockOp := func(kind string) preludeFn {
		return func(c *FnCtx, fr *Frame, st *State, fn *ssa.Function, args []Val, pos token.Pos) *Val {
			m := args[0].E
			cur := c.lockState(st, m)
			switch kind {
			case "Lock":
				o := c.obligation(st, "lock", "Lock", "(= "+cur+" 0)", pos)
				o.Desc = "Lock() while this goroutine already holds the mutex (self-deadlock)"
				c.assume(st, "(= "+cur+" 0)")
				c.setLock(st, m, "(- 1)")
				c.bumpLockGen(st, m)
				c.onAcquire(st, m, pos)
			case "RLock":
				o := c.obligation(st, "lock", "RLock", "(>= "+cur+" 0)", pos)
				o.Desc = "RLock() while this goroutine holds the mutex for writing (self-deadlock)"
				c.assume(st, "(>= "+cur+" 0)")
				c.setLock(st, m, "(+ "+cur+" 1)")
				c.bumpLockGen(st, m)
				c.onAcquire(st, m, pos)
			case "Unlock":
				o := c.obligation(st, "lock", "Unlock", "(= "+cur+" (- 1))", pos)
				o.Desc = "Unlock() of a mutex that is not write-held"
				c.assume(st, "(= "+cur+" (- 1))")
				c.onRelease(st, m, pos)
				c.setLock(st, m, "0")
			case "RUnlock":
				o := c.obligation(st, "lock", "RUnlock", "(> "+cur+" 0)", pos)
				o.Desc = "RUnlock() of a mutex that is not read-held"
				c.assume(st, "(> "+cur+" 0)")
				c.onRelease(st, m, pos)
				c.setLock(st, m, "(- "+cur+" 1)")
			}
			return nil
		}
	}
	for _, t := range []string{"(*sync.RWMutex).", "(*sync.Mutex)."} {
		for _, k := range []string{"Lock", "Unlock", "RLock", "RUnlock"} {
			if t == "(*sync.Mutex)." && (k == "RLock" || k == "RUnlock") {
				continue
			}
			preludeTable[t+k] = lockOp(k)
			preludeModTable[t+k] = []string{"ghost$lock", "ghost$lockgen"}
		}
	}
}

// guardElem: element access through a slice that was loaded from a guarded field.
func (c *FnCtx) guardElem(st *State, l *Loc, write bool, pos token.Pos) {
	if l.Kind != locElem {
		return
	}
	mu, ok := c.guardOf[l.Ref]
	if !ok {
		return
	}
	if write {
		o := c.obligation(st, "guard", "W.elem", Or("(>= "+l.Ref+" |alloc0|)", "(= "+c.lockState(st, mu)+" (- 1))"), pos)
		o.Desc = "write to an element of a slice that is protected by a mutex without holding it for writing"
		return
	}
	o := c.obligation(st, "guard", "R.elem", Or("(>= "+l.Ref+" |alloc0|)", "(not (= "+c.lockState(st, mu)+" 0))"), pos)
	o.Desc = "read of an element of a slice that is protected by a mutex without holding it"
}
