package main

// Function values keep their identity when they travel through the heap, slices or parameters:
//   clofn(ref)        = id of the function a closure object was made from (closures are immutable objects)
//   clobind$id$k(ref) = k-th captured variable of that closure
// A call of a function value whose target is not statically known is dispatched over the module's address-taken
// functions of the same signature; whatever matches none of them is treated as an unknown callback.

import (
	"fmt"
	"go/token"
	"go/types"
	"sort"
	"strings"

	"golang.org/x/tools/go/ssa"
	"golang.org/x/tools/go/ssa/ssautil"
)

func (e *Engine) fnID(fn *ssa.Function) int {
	if e.fnIDs == nil {
		e.fnIDs = map[*ssa.Function]int{}
	}
	if id, ok := e.fnIDs[fn]; ok {
		return id
	}
	id := len(e.fnIDs) + 1
	e.fnIDs[fn] = id
	return id
}

func (c *FnCtx) cloFn(ref string) string {
	c.sc.Decl("clofn", "(declare-fun |clofn| (Int) Int)")
	return "(|clofn| " + ref + ")"
}

func (c *FnCtx) cloBind(fn *ssa.Function, k int, ref string) string {
	id := c.eng.fnID(fn)
	t := fn.FreeVars[k].Type()
	f := q(fmt.Sprintf("clobind$%d$%d", id, k))
	c.sc.Decl("clobind:"+f, fmt.Sprintf("(declare-fun %s (Int) %s)", f, c.ty.SortOf(t)))
	return "(" + f + " " + ref + ")"
}

func (c *FnCtx) registerClosure(st *State, ref string, fn *ssa.Function, bs []Val) {
	c.assume(st, fmt.Sprintf("(= %s %d)", c.cloFn(ref), c.eng.fnID(fn)))
	for k, b := range bs {
		if b.E == "" {
			continue
		}
		c.assume(st, "(= "+c.cloBind(fn, k, ref)+" "+b.E+")")
	}
}

// addressTaken: module functions that are used as values somewhere (closures, function constants).
func (e *Engine) addressTaken() []*ssa.Function {
	if e.addrTaken != nil {
		return e.addrTaken
	}
	seen := map[*ssa.Function]bool{}
	for fn := range ssautil.AllFunctions(e.prog) {
		if !e.inModule(fn) {
			continue
		}
		for _, b := range fn.Blocks {
			for _, ins := range b.Instrs {
				if mc, ok := ins.(*ssa.MakeClosure); ok {
					seen[mc.Fn.(*ssa.Function)] = true
				}
				var callee ssa.Value
				if call, ok := ins.(ssa.CallInstruction); ok {
					callee = call.Common().Value
				}
				for _, op := range ins.Operands(nil) {
					if f, ok := (*op).(*ssa.Function); ok && *op != callee && e.inModule(f) {
						seen[f] = true
					}
				}
			}
		}
	}
	// package-level function variables initialised with function literals
	for f := range seen {
		e.addrTaken = append(e.addrTaken, f)
	}
	sort.Slice(e.addrTaken, func(i, j int) bool { return e.funcName(e.addrTaken[i]) < e.funcName(e.addrTaken[j]) })
	return e.addrTaken
}

func (e *Engine) closureCandidates(ft types.Type) []*ssa.Function {
	sig, ok := ft.Underlying().(*types.Signature)
	if !ok {
		return nil
	}
	key := typeKey(sig)
	if e.candCache == nil {
		e.candCache = map[string][]*ssa.Function{}
	}
	if r, ok := e.candCache[key]; ok {
		return r
	}
	var out []*ssa.Function
	for _, f := range e.addressTaken() {
		fs := f.Signature
		if fs.Recv() != nil {
			continue
		}
		if types.Identical(types.NewSignatureType(nil, nil, nil, fs.Params(), fs.Results(), fs.Variadic()), types.NewSignatureType(nil, nil, nil, sig.Params(), sig.Results(), sig.Variadic())) {
			out = append(out, f)
		}
	}
	e.candCache[key] = out
	return out
}

// dispatchClosure: call of a function value of unknown identity.  Returns false when there is nothing to dispatch on.
func (c *FnCtx) dispatchClosure(fr *Frame, st *State, fv Val, ft types.Type, args []Val, resT *types.Tuple, pos token.Pos) (*Val, bool) {
	if c.sc.pure {
		return nil, false
	}
	named, isNamed := ft.(*types.Named)
	if !isNamed || named.Obj().Pkg() == nil || !strings.HasPrefix(named.Obj().Pkg().Path(), c.eng.module) {
		return nil, false // only function types declared by the module (option functions, interceptors ...)
	}
	if cb0 := c.eng.callbackSpec(ft); cb0 == nil || !cb0.Closed {
		return nil, false // dispatch is opt-in: `//@ callback T: closed` (all values of T are made by the module itself)
	}
	cands := c.eng.closureCandidates(ft)
	if len(cands) == 0 || len(cands) > 40 || fr.depth >= c.maxDepth {
		return nil, false
	}
	type branch struct {
		st  *State
		res *Val
	}
	var brs []branch
	var conds []string
	for _, f := range cands {
		if c.onStack(f) {
			continue
		}
		cond := fmt.Sprintf("(= %s %d)", c.cloFn(fv.E), c.eng.fnID(f))
		conds = append(conds, cond)
		bs := st.clone()
		bs.guard = c.sc.Define("g", sBool, And(st.guard, cond))
		var binds []Val
		for k, v := range f.FreeVars {
			b := Val{T: v.Type(), E: c.cloBind(f, k, fv.E)}
			if _, isPtr := v.Type().Underlying().(*types.Pointer); isPtr {
				// captured variables live in cells that were allocated when the closure was made
				c.assume(bs, "(and (> "+b.E+" 0) (< "+b.E+" "+bs.alloc+"))")
				c.nonNil[b.E] = true
			}
			binds = append(binds, b)
		}
		r := c.callFunc(fr, bs, f, binds, args, pos)
		brs = append(brs, branch{bs, r})
	}
	// none of the known functions: an unknown callback
	other := st.clone()
	other.guard = c.sc.Define("g", sBool, And(st.guard, Not(Or(conds...))))
	cb := c.eng.callbackSpec(ft)
	var otherRes *Val
	if cb != nil && cb.Closed {
		c.assumed["closed world: every value of type "+named.Obj().Name()+" is made by the module's own constructors"] = true
		c.assume(st, Or(conds...))
		other.guard = "false"
	} else {
		otherRes = c.callUnknownOpaque(fr, other, fv, ft, args, resT, pos)
	}
	ins := []edgeIn{}
	for _, b := range brs {
		ins = append(ins, edgeIn{-1, b.st})
	}
	if other.guard != "false" {
		ins = append(ins, edgeIn{-1, other})
		brs = append(brs, branch{other, otherRes})
	}
	guard := st.guard
	ms := c.mergeStates(ins)
	*st = *ms
	st.guard = guard
	n := resT.Len()
	if n == 0 {
		return nil, true
	}
	vs := make([]Val, n)
	for k := 0; k < n; k++ {
		var term string
		for bi, b := range brs {
			var bv Val
			if n == 1 {
				bv = *b.res
			} else {
				bv = b.res.Tuple[k]
			}
			if bi == 0 {
				term = bv.E
			} else {
				term = Ite(b.st.guard, bv.E, term)
			}
		}
		t := resT.At(k).Type()
		vs[k] = Val{T: t, E: c.sc.Define("cdisp", c.ty.SortOf(t), term)}
	}
	return tupleVal(resT, vs), true
}
