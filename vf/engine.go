package main

import (
	"encoding/json"
	"fmt"
	"go/token"
	"go/types"
	"os"
	"path/filepath"
	"sort"
	"strings"

	"golang.org/x/tools/go/packages"
	"golang.org/x/tools/go/ssa"
	"golang.org/x/tools/go/ssa/ssautil"
)

type ufInfo struct {
	args []types.Type
	res  types.Type
}

type Engine struct {
	root      string
	module    string
	pkgs      []*packages.Package
	allPkgs   map[string]*packages.Package
	prog      *ssa.Program
	fset      *token.FileSet
	specs     *SpecSet
	comps     map[string]string
	compDeps  map[string][]types.Type
	compElem  map[string]types.Type // type of the values stored in a heap component (for well-formedness axioms)
	compOrder []string
	modCache  map[*ssa.Function]*modSet
	nonNil    map[string]bool
	ranges    map[string]*rangeState
	uninterp  map[string]ufInfo
	funcByKey map[string]*ssa.Function
	implCache map[string][]types.Type
	constGlob map[*ssa.Global]*constGlobalInfo
	cgScanned map[*ssa.Package]bool
	ghost     *Ghost
	blNames   map[string]*fnNames
	fnIDs     map[*ssa.Function]int
	addrTaken []*ssa.Function
	candCache map[string][]*ssa.Function
	faddrIDs  map[string]int
}

func (e *Engine) faddrUID(name string) int {
	if e.faddrIDs == nil {
		e.faddrIDs = map[string]int{}
	}
	if id, ok := e.faddrIDs[name]; ok {
		return id
	}
	id := len(e.faddrIDs) + 1
	e.faddrIDs[name] = id
	return id
}

type nameT struct {
	Name string `json:"name"`
	Type string `json:"type"`
}

type fnNames struct {
	Loops  map[string][]nameT `json:"loops"`
	Allocs []nameT            `json:"allocs"`
}

func (e *Engine) baselineNames() map[string]*fnNames {
	if e.blNames != nil {
		return e.blNames
	}
	e.blNames = map[string]*fnNames{}
	data, err := os.ReadFile(filepath.Join(verifRoot, "baseline", "names.json"))
	if err == nil {
		json.Unmarshal(data, &e.blNames)
	}
	return e.blNames
}

// collectNames computes the baseline entry of one function from its current SSA.
func (e *Engine) collectNames(fn *ssa.Function) *fnNames {
	out := &fnNames{Loops: map[string][]nameT{}}
	var headers []*ssa.BasicBlock
	for _, b := range fn.Blocks {
		for _, p := range b.Preds {
			if isBackEdge(p, b) {
				headers = append(headers, b)
				break
			}
		}
	}
	sort.Slice(headers, func(i, j int) bool { return headers[i].Index < headers[j].Index })
	for i, h := range headers {
		var ns []nameT
		for _, ins := range h.Instrs {
			if p, ok := ins.(*ssa.Phi); ok {
				ns = append(ns, nameT{p.Comment, shortTypeName(p.Type())})
			}
		}
		out.Loops[fmt.Sprint(i)] = ns
	}
	for _, b := range fn.Blocks {
		for _, ins := range b.Instrs {
			if a, ok := ins.(*ssa.Alloc); ok && a.Comment != "" {
				out.Allocs = append(out.Allocs, nameT{a.Comment, shortTypeName(a.Type())})
			}
		}
	}
	return out
}

type constGlobalInfo struct {
	g      *ssa.Global
	alloc  *ssa.Alloc // initialised with &T{...}
	value  ssa.Value
	nonNil bool
}

func LoadEngine(root string) (*Engine, error) {
	cfg := &packages.Config{
		Mode:       packages.LoadAllSyntax | packages.NeedModule,
		Dir:        root,
		BuildFlags: []string{"-tags=verif"},
		Env:        append(os.Environ(), "GOFLAGS=-mod=mod", "GOPROXY=off", "GOSUMDB=off", "GOTOOLCHAIN=local"),
	}
	pkgs, err := packages.Load(cfg, "./pkg/...", "./internal/...")
	if err != nil {
		return nil, err
	}
	var errs []string
	packages.Visit(pkgs, nil, func(p *packages.Package) {
		for _, e := range p.Errors {
			if strings.HasPrefix(p.PkgPath, "github.com/smart-core-os/sc-golang") {
				errs = append(errs, e.Error())
			}
		}
	})
	if len(errs) > 0 {
		return nil, fmt.Errorf("package errors:\n%s", strings.Join(errs, "\n"))
	}
	prog, _ := ssautil.AllPackages(pkgs, ssa.GlobalDebug|ssa.InstantiateGenerics)
	prog.Build()
	e := &Engine{
		root: root, pkgs: pkgs, prog: prog, fset: prog.Fset,
		allPkgs: map[string]*packages.Package{}, comps: map[string]string{}, compDeps: map[string][]types.Type{}, compElem: map[string]types.Type{}, modCache: map[*ssa.Function]*modSet{},
		nonNil: map[string]bool{}, ranges: map[string]*rangeState{}, uninterp: map[string]ufInfo{},
		funcByKey: map[string]*ssa.Function{}, implCache: map[string][]types.Type{},
		constGlob: map[*ssa.Global]*constGlobalInfo{}, cgScanned: map[*ssa.Package]bool{},
	}
	packages.Visit(pkgs, nil, func(p *packages.Package) { e.allPkgs[p.PkgPath] = p })
	for _, p := range pkgs {
		if p.Module != nil {
			e.module = p.Module.Path
			break
		}
	}
	dirPkg := map[string]string{}
	for _, p := range pkgs {
		if len(p.GoFiles) > 0 {
			dirPkg[filepath.Dir(p.GoFiles[0])] = p.PkgPath
		}
	}
	e.specs, err = LoadSpecs(root, func(dir string) string { return dirPkg[dir] })
	if err != nil {
		return nil, err
	}
	e.indexFuncs()
	e.ghost = newGhost(e)
	return e, nil
}

func (e *Engine) pos(p token.Pos) string {
	if !p.IsValid() {
		return ""
	}
	ps := e.fset.Position(p)
	rel, err := filepath.Rel(e.root, ps.Filename)
	if err != nil {
		rel = ps.Filename
	}
	return fmt.Sprintf("%s:%d", rel, ps.Line)
}

func (e *Engine) inModule(fn *ssa.Function) bool {
	p := fn.Pkg
	if p == nil && fn.Parent() != nil {
		return e.inModule(fn.Parent())
	}
	if p == nil {
		if fn.Origin() != nil {
			return e.inModule(fn.Origin())
		}
		return false
	}
	return strings.HasPrefix(p.Pkg.Path(), e.module)
}

// funcKey is the contract key of a function inside its package: Name, (*T).Name, (T).Name, Outer$1.
func funcKey(fn *ssa.Function) string {
	if fn.Parent() != nil {
		return funcKey(fn.Parent()) + strings.TrimPrefix(fn.Name(), fn.Parent().Name())
	}
	if recv := fn.Signature.Recv(); recv != nil {
		t := recv.Type()
		if p, ok := t.(*types.Pointer); ok {
			if n, ok := p.Elem().(*types.Named); ok {
				return "(*" + n.Obj().Name() + ")." + fn.Name()
			}
		}
		if n, ok := t.(*types.Named); ok {
			return "(" + n.Obj().Name() + ")." + fn.Name()
		}
	}
	return fn.Name()
}

func (e *Engine) funcPkgPath(fn *ssa.Function) string {
	for f := fn; f != nil; f = f.Parent() {
		if f.Pkg != nil {
			return f.Pkg.Pkg.Path()
		}
		if f.Origin() != nil && f.Origin().Pkg != nil {
			return f.Origin().Pkg.Pkg.Path()
		}
	}
	if recv := fn.Signature.Recv(); recv != nil {
		t := recv.Type()
		if p, ok := t.(*types.Pointer); ok {
			t = p.Elem()
		}
		if n, ok := t.(*types.Named); ok && n.Obj().Pkg() != nil {
			return n.Obj().Pkg().Path()
		}
	}
	return ""
}

func (e *Engine) funcName(fn *ssa.Function) string {
	pp := e.funcPkgPath(fn)
	pp = strings.TrimPrefix(pp, e.module+"/")
	pp = strings.TrimPrefix(pp, "pkg/")
	return pp + "." + funcKey(fn)
}

func (e *Engine) indexFuncs() {
	for fn := range ssautil.AllFunctions(e.prog) {
		if fn.Synthetic != "" && fn.Parent() == nil && !strings.HasPrefix(fn.Synthetic, "instance") {
			continue
		}
		pp := e.funcPkgPath(fn)
		if !strings.HasPrefix(pp, e.module) {
			continue
		}
		e.funcByKey[pp+"."+funcKey(fn)] = fn
	}
}

func (e *Engine) specOf(fn *ssa.Function) *FuncSpec {
	return e.specs.Funcs[e.funcPkgPath(fn)+"."+funcKey(fn)]
}

var inlineExtra = []string{
	"github.com/smart-core-os/sc-api/go/",
}

func (e *Engine) inlinable(fn *ssa.Function) bool {
	if len(fn.Blocks) == 0 {
		return false
	}
	if e.inModule(fn) {
		return true
	}
	if fn.Synthetic != "" && fn.Pkg == nil && fn.Signature.Recv() != nil {
		// promoted-method / pointer-receiver wrappers generated by go/ssa: a single forwarding call
		if n, ok := derefNamed(fn.Signature.Recv().Type()); ok && n.Obj().Pkg() != nil && strings.HasPrefix(n.Obj().Pkg().Path(), e.module) {
			return true
		}
	}
	pp := e.funcPkgPath(fn)
	for _, p := range inlineExtra {
		if strings.HasPrefix(pp, p) && strings.HasPrefix(fn.Name(), "Get") {
			return true // generated protobuf getters
		}
	}
	if strings.HasPrefix(pp, "google.golang.org/protobuf/types/known/") {
		if strings.HasPrefix(fn.Name(), "Get") || fn.Name() == "AsDuration" || ((fn.Name() == "New" || fn.Name() == "Now") && (strings.HasSuffix(pp, "durationpb") || strings.HasSuffix(pp, "timestamppb"))) {
			return true
		}
	}
	return false
}

func (e *Engine) immutableComp(k string) bool { return false }

func (e *Engine) resolveType(fromPkg, text string) types.Type {
	text = strings.TrimSpace(text)
	switch {
	case strings.HasPrefix(text, "*"):
		t := e.resolveType(fromPkg, text[1:])
		if t == nil {
			return nil
		}
		return types.NewPointer(t)
	case strings.HasPrefix(text, "[]"):
		t := e.resolveType(fromPkg, text[2:])
		if t == nil {
			return nil
		}
		return types.NewSlice(t)
	}
	switch text {
	case "mathint":
		return tMath
	case "any":
		return types.NewInterfaceType(nil, nil)
	}
	if obj := types.Universe.Lookup(text); obj != nil {
		if tn, ok := obj.(*types.TypeName); ok {
			return tn.Type()
		}
	}
	pkgName, name := "", text
	if k := strings.Index(text, "."); k >= 0 {
		pkgName, name = text[:k], text[k+1:]
	}
	p := e.findPackage(fromPkg, pkgName)
	if p == nil {
		return nil
	}
	obj := p.Types.Scope().Lookup(name)
	if tn, ok := obj.(*types.TypeName); ok {
		return tn.Type()
	}
	return nil
}

// findPackage: the package itself (name "") or one of its imports by package name.
func (e *Engine) findPackage(fromPkg, name string) *packages.Package {
	from := e.allPkgs[fromPkg]
	if from == nil {
		return nil
	}
	if name == "" {
		return from
	}
	for _, imp := range from.Imports {
		if imp.Name == name {
			return imp
		}
	}
	// any loaded package with that name (specs may mention packages the code does not import)
	var cands []*packages.Package
	for _, p := range e.allPkgs {
		if p.Name == name {
			cands = append(cands, p)
		}
	}
	if len(cands) == 1 {
		return cands[0]
	}
	sort.Slice(cands, func(i, j int) bool { return cands[i].PkgPath < cands[j].PkgPath })
	for _, p := range cands {
		if strings.HasPrefix(p.PkgPath, e.module) || strings.Contains(p.PkgPath, "smart-core-os") || strings.Contains(p.PkgPath, "protobuf/types/known") {
			return p
		}
	}
	if len(cands) > 0 {
		return cands[0]
	}
	return nil
}

// implementers of an interface among the module's named types (closed world for unexported-method or
// module-defined interfaces).
func (e *Engine) implementers(it types.Type) []types.Type {
	key := typeKey(it)
	if r, ok := e.implCache[key]; ok {
		return r
	}
	var out []types.Type
	named, ok := it.(*types.Named)
	if !ok || named.Obj().Pkg() == nil || !strings.HasPrefix(named.Obj().Pkg().Path(), e.module) {
		e.implCache[key] = nil
		return nil
	}
	iface := it.Underlying().(*types.Interface)
	// only interfaces whose implementers cannot live outside the module: they have an unexported method
	closed := false
	for i := 0; i < iface.NumMethods(); i++ {
		if !iface.Method(i).Exported() {
			closed = true
		}
	}
	if !closed && named.Obj().Exported() {
		e.implCache[key] = nil
		return nil
	}
	var paths []string
	for p := range e.allPkgs {
		if strings.HasPrefix(p, e.module) {
			paths = append(paths, p)
		}
	}
	sort.Strings(paths)
	for _, pp := range paths {
		scope := e.allPkgs[pp].Types.Scope()
		for _, n := range scope.Names() {
			tn, ok := scope.Lookup(n).(*types.TypeName)
			if !ok || tn.IsAlias() {
				continue
			}
			t := tn.Type()
			if _, isIface := t.Underlying().(*types.Interface); isIface {
				continue
			}
			if types.Implements(t, iface) {
				out = append(out, t)
			} else if types.Implements(types.NewPointer(t), iface) {
				out = append(out, types.NewPointer(t))
			}
		}
	}
	e.implCache[key] = out
	return out
}

// ---- init-only globals ----

func (e *Engine) scanGlobals(p *ssa.Package) {
	if e.cgScanned[p] {
		return
	}
	e.cgScanned[p] = true
	stores := map[*ssa.Global][]*ssa.Store{}
	escaped := map[*ssa.Global]bool{}
	var scan func(fn *ssa.Function)
	scan = func(fn *ssa.Function) {
		for _, b := range fn.Blocks {
			for _, ins := range b.Instrs {
				if s, ok := ins.(*ssa.Store); ok {
					if g, ok := s.Addr.(*ssa.Global); ok {
						stores[g] = append(stores[g], s)
						continue
					}
				}
				// any other use of the global's address except loads makes it mutable in our eyes
				for _, op := range ins.Operands(nil) {
					if g, ok := (*op).(*ssa.Global); ok {
						if u, ok := ins.(*ssa.UnOp); ok && u.Op == token.MUL {
							continue
						}
						escaped[g] = true
					}
				}
			}
		}
		for _, an := range fn.AnonFuncs {
			scan(an)
		}
	}
	for _, m := range p.Members {
		if fn, ok := m.(*ssa.Function); ok {
			scan(fn)
		}
		if t, ok := m.(*ssa.Type); ok {
			for _, tt := range []types.Type{t.Type(), types.NewPointer(t.Type())} {
				ms := e.prog.MethodSets.MethodSet(tt)
				for i := 0; i < ms.Len(); i++ {
					if f := e.prog.MethodValue(ms.At(i)); f != nil && f.Pkg == p {
						scan(f)
					}
				}
			}
		}
	}
	for _, m := range p.Members {
		g, ok := m.(*ssa.Global)
		if !ok || escaped[g] {
			continue
		}
		ss := stores[g]
		if len(ss) > 1 {
			continue
		}
		if len(ss) == 1 && ss[0].Parent().Name() != "init" {
			continue
		}
		info := &constGlobalInfo{g: g}
		if len(ss) == 1 {
			info.value = ss[0].Val
			if a, ok := ss[0].Val.(*ssa.Alloc); ok {
				info.alloc = a
				info.nonNil = true
			}
		}
		e.constGlob[g] = info
	}
}

func (e *Engine) constGlobal(g *ssa.Global) *constGlobalInfo {
	e.scanGlobals(g.Pkg)
	return e.constGlob[g]
}

// constGlobalVal: value of an init-only global: a fixed constant of the program run.
func (e *Engine) constGlobalVal(c *FnCtx, st *State, key string) Val {
	name := strings.TrimPrefix(key, "const:")
	for g, info := range e.constGlob {
		if g.String() != name {
			continue
		}
		t := g.Type().(*types.Pointer).Elem()
		n := q("G$" + g.Pkg.Pkg.Name() + "." + g.Name())
		c.sc.Decl("cg:"+n, fmt.Sprintf("(declare-const %s %s)", n, c.ty.SortOf(t)))
		if inv := c.ty.Inv(t, n); inv != "true" {
			c.sc.Decl("cginv:"+n, "(assert "+inv+")")
		}
		if info.nonNil {
			c.sc.Decl("cgnn:"+n, "(assert (> "+n+" 0))")
			c.nonNil[n] = true
		}
		if len(stores(info)) == 0 && info.value == nil {
			// never assigned: zero value
			c.sc.Decl("cgz:"+n, "(assert (= "+n+" "+c.ty.Zero(t)+"))")
		}
		if f := e.ghost.globalFact(c, g, n); f != "" {
			c.sc.Decl("cgf:"+n, "(assert "+f+")")
		}
		c.assumed["init-only global "+g.Pkg.Pkg.Name()+"."+g.Name()+" is a constant (checked: single store in init, address never taken)"] = true
		if rb := c.refBound(t, n, &State{alloc: "|alloc0|"}); rb != "true" {
			c.sc.Decl("cgal:"+n, "(assert "+rb+")")
		}
		return Val{T: t, E: n}
	}
	c.unsupported("global %s", name)
	return Val{}
}

func stores(i *constGlobalInfo) []int { return nil }

func derefNamed(t types.Type) (*types.Named, bool) {
	if p, ok := t.(*types.Pointer); ok {
		t = p.Elem()
	}
	n, ok := t.(*types.Named)
	return n, ok
}
