package main

// Minimal S-expression reader used to decide whether a quantified index variable can be re-expressed as an
// absolute array position without destroying other triggers.

type sx struct {
	atom string
	kids []*sx
}

func parseSx(s string) *sx {
	pos := 0
	var rd func() *sx
	skip := func() {
		for pos < len(s) && (s[pos] == ' ' || s[pos] == '\n' || s[pos] == '\t') {
			pos++
		}
	}
	rd = func() *sx {
		skip()
		if pos >= len(s) {
			return nil
		}
		if s[pos] == '(' {
			pos++
			n := &sx{}
			for {
				skip()
				if pos >= len(s) {
					return n
				}
				if s[pos] == ')' {
					pos++
					return n
				}
				n.kids = append(n.kids, rd())
			}
		}
		st := pos
		if s[pos] == '|' {
			pos++
			for pos < len(s) && s[pos] != '|' {
				pos++
			}
			pos++
		} else {
			for pos < len(s) && s[pos] != ' ' && s[pos] != ')' && s[pos] != '(' && s[pos] != '\n' {
				pos++
			}
		}
		return &sx{atom: s[st:pos]}
	}
	return rd()
}

func (n *sx) head() string {
	if n == nil || len(n.kids) == 0 {
		return ""
	}
	return n.kids[0].atom
}

// indexOnlyUse reports whether every occurrence of variable v in t is either exactly the slice position
// (+ (s-off base) v) or sits (through pure arithmetic) directly under a comparison.
func indexOnlyUse(t *sx, v, base string) bool {
	ok := true
	var walk func(n *sx, anc []*sx)
	isDirect := func(n *sx) bool {
		return n.head() == "+" && len(n.kids) == 3 && n.kids[2].atom == v && n.kids[1].head() == "s-off" && len(n.kids[1].kids) == 2 && n.kids[1].kids[1].atom == base
	}
	walk = func(n *sx, anc []*sx) {
		if n == nil {
			return
		}
		if n.atom != "" {
			if n.atom != v {
				return
			}
			// climb through arithmetic
			i := len(anc) - 1
			for i >= 0 {
				h := anc[i].head()
				if h == "+" || h == "-" || h == "*" {
					if isDirect(anc[i]) {
						return
					}
					i--
					continue
				}
				break
			}
			if i < 0 {
				ok = false
				return
			}
			switch anc[i].head() {
			case "<", "<=", ">", ">=", "=", "distinct":
			default:
				ok = false
			}
			return
		}
		for _, k := range n.kids {
			walk(k, append(anc, n))
		}
	}
	walk(t, nil)
	return ok
}

func (n *sx) String() string {
	if n == nil {
		return ""
	}
	if n.atom != "" || len(n.kids) == 0 && n.atom == "" {
		if n.atom == "" {
			return "()"
		}
		return n.atom
	}
	s := "("
	for i, k := range n.kids {
		if i > 0 {
			s += " "
		}
		s += k.String()
	}
	return s + ")"
}

// findSliceBase: the first X such that (+ (s-off X) v) occurs in t.
func findSliceBase(t *sx, v string) string {
	if t == nil || t.atom != "" {
		return ""
	}
	if t.head() == "+" && len(t.kids) == 3 && t.kids[2].atom == v && t.kids[1].head() == "s-off" && len(t.kids[1].kids) == 2 {
		return t.kids[1].kids[1].String()
	}
	for _, k := range t.kids {
		if b := findSliceBase(k, v); b != "" {
			return b
		}
	}
	return ""
}
