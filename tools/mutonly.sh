#!/bin/bash
# usage: mutonly.sh <patch> <property> <only-substring> [extra vf args]: runs one function's obligations on a mutated scratch copy (debug aid)
PATCH=$(readlink -f "$1"); PID=$2; ONLY=$3; shift 3
D=$(mktemp -d /var/tmp/vf-dbg-XXXX); mkdir -p $D/repo $D/out
(cd /repo && git ls-files -z | xargs -0 cp --parents -t $D/repo); (cd $D/repo && git init -q . && git apply "$PATCH") || exit 3
VF_REPO=$D/repo VF_OUT=$D/out /verif/bin/vf check $PID --only "$ONLY" "$@" 2>&1 | grep -v WARNING | sed "s#$D/out#<out>#" | tail -${MUT_LINES:-8}
rm -rf $D
