#!/usr/bin/env python3
"""Regenerates /verif/MANIFEST.json from the table below (kept in one place so it is always valid)."""
import json, subprocess, os

ROOT = os.path.dirname(os.path.dirname(os.path.abspath(__file__)))
ENV = "GOFLAGS=-mod=mod GOPROXY=off GOSUMDB=off GOTOOLCHAIN=local"

# property -> (design_ref, level text, level_note)
CLAIMED = {
 "C08": ("DESIGN.md §4 C08",
         "Deductive proof, for all predicates (an uninterpreted deterministic function, including ones true on nil), all events and all kinds, that CollectionChange.include implements the statement's decision table: not delivered iff the item matches neither before nor after, ADD/REMOVE when it starts/stops matching, unchanged event when both match; id and time preserved; receiver not modified.",
         "Assumes the include predicate is a deterministic function of (id, message). Seed filtering (itemSlice/Exclude), the order include->mask->equivalence in Pull and the booking predicate are added as further contracts in later revisions; until then they are listed as not decided in the evidence."),
 "C09": ("DESIGN.md §4 C09",
         "Deductive proof (loop-free, hence complete) that mergeChanges preserves the fold: for every view consistent with a and b chaining on a, applying the merged event equals applying both; add;remove cancels, remove;add becomes replace, old values chain, LastSeedValue is or-ed, the newest value/time win.",
         "Kinds restricted to ADD/UPDATE/REPLACE/REMOVE (the ones that can occur). Not decided by this family: writers not waiting, eventual delivery, the 5 s send timeout (liveness/timing); DropExcess and mergeCollectionExcess step invariants are added in later revisions."),
 "C11": ("DESIGN.md §4 C11",
         "Deductive proof of the guarded-by lock discipline on the real code: for Value{value,changeTime}, Collection{byId; rng under rngMu}, router{registry}, Bus{listeners}, listener{ch}, waste Model{allWasteRecords,genId}, every load of a guarded field (and of maps / shared backing arrays reached through it) happens with the mutex held, every store and every mutating call with it held for writing, on every path of every module function that touches such a field (the sweep finds accessors from SSA, so a new unannotated accessor is checked, not missed); Lock/Unlock pairing (no self-deadlock, no unlock of an unheld mutex) is proved along the way.",
         "Narrow: lock discipline only. Not decided: races ordered by channel operations (wrap.ClientServerStream), group (channels only), races inside dependencies or on caller-owned objects; closures are checked where the module calls them (inlined), not when they escape to foreign code; objects allocated by the very call are exempt until it returns; item/message immutability after publication is C07's concern. Assumes unknown code does not lock/unlock the module's mutexes."),
 "C15": ("DESIGN.md §4 C15",
         "Deductive proof on the real code of the seven paged RPCs (ListModes, ListHails, ListPublications, ListConsumables, ListInventory, ListChildren, ListWasteRecords), for every collection content, page size and token: no index/slice panic, a negative page_size yields an error status, the page is the contiguous segment of the key-sorted listing that starts at the first key greater than the token's key, is at most the capped size (default 50, cap 1000) and is full unless it reaches the end, total_size is the listing length, the token is dropped on the last page; waste pages count down from a start index clamped into range. sort.Search/sort.Slice are used through contracts stated over the call site's own predicate.",
         "Assumed: each model's List*() result is sorted strictly by the paging key (trusted postcondition; follows from C01's sorted Collection.List plus stored items carrying their collection id), sort.Search/sort.Slice/base64/proto.Marshal library contracts, token round trip through base64+proto (the chain-of-pages partition argument composes the per-call contract with it and is stated, not machine-checked). The read-mask loop of ListChildren is covered for safety and framing only."),
 "C16": ("DESIGN.md §4 C16",
         "Deductive proof on the real pkg/cmp code (closures verified with their captured tolerances universally quantified): FloatValueApprox, TimeValueWithin, DurationValueWithin answer ok exactly for fields of their own kind, accept exactly the pairs within tolerance (difference computed in unbounded arithmetic, so int64 overflow is a counterexample), are reflexive for every value including NaN/±Inf, with symmetry/reflexivity lemmas over the spec functions; ValueAnd/ValueOr/And/Or are the conjunction/disjunction over the comparers that answered, for any number of comparers (loop invariants).",
         "Narrow: agreement of the default comparer (equator) with proto.Equal and the change_time exception are not decided (reflection walks); the Pull suppression step is covered with C04. Assumed: protoreflect accessors are pure, Value.Message()/Descriptor() non-nil, Go type of Duration/Timestamp messages; tolerances finite and non-negative; float rounding not modelled. DurationValueWithinP's defect is a recorded known finding."),
 "C17": ("DESIGN.md §4 C17",
         "Deductive proof on the real pkg/group code, for every member count (including none), every outcome vector and every completion order (a universally quantified ghost sequence resp(members,k) constrained only by 'each member responds once'): ExecuteUpTo/All/Most/Any fail exactly when more than the budget / some / more than half / all members fail, results land at the member's own index, the error returned is the first observed, cancel is called as soon as the budget is exceeded and all responses are drained; ExecuteOne calls members in order until one succeeds (ghost call log); Fast/Race return the first success / first response; Execute never indexes out of range; executeEach's channel is buffered so no sender stays blocked after an early return.",
         "executeEach's goroutines are outside the subset: that its channel delivers exactly one response per member and then closes (chanTotal, chanSeq == resp) is a trusted postcondition; its buffer capacity and freshness are proved. Members are assumed not to write memory the package reads. Real scheduling is represented by the quantified completion order."),
 "C18": ("DESIGN.md §4 C18",
         "Deductive proof, for all inputs, of function contracts on the real code: CompareAscending = sign of chronological order (+ strict-total-order lemma); the four cut CompareTo methods and compareValueCuts against the cut order; PeriodsIntersect/PeriodsConnected = share an instant / closures share an instant (+ soundness/completeness/symmetry lemmas); segment ActiveAt, MagnitudeAt, Duration, Max, MaxMagnitude, MaxAfter, Cut, Shift against the step-function reading (prefix sums cum), with loop invariants, termination, no-panic obligations and a checked frame (no argument is modified).",
         "Assumes valid timestamps/durations and total segment length <= 2^62 ns as preconditions; float magnitudes are {NaN,+-Inf,finite real} without rounding. Shift is specified structurally per case (the translation law follows by a stated, not machine-checked, induction over prefix sums). Sum/calcCuts and the modepb wrappers are not yet under contract in this revision."),
 "C04": ("DESIGN.md §4 C04",
         "Deductive proof on the real forwarding goroutines of Value.Pull and Collection.Pull (closures Pull$1, channels as ghost sequences, every send is an obligation): unless updates-only, the first message of a Value stream is the value at subscription with SeedValue and LastSeedValue set; a Collection stream starts with one ADD per snapshot item in ascending id order, each carrying the stored change time and the projection of the stored body, all flagged seed and exactly the final one flagged last-seed; every later message is the include verdict of the raw event, projected through the read mask, never flagged seed, and is dropped when the configured equivalence relates old and new; the output channel is closed when the goroutine ends.",
         "Narrow: per-subscriber forwarding only. That the snapshot and the subscription are taken atomically (onUpdate under the read lock) is covered by C11's lock discipline plus the Bus contract, not re-proved here; replaying the stream over the seed to rebuild Get (the edit-script fold) composes these per-message clauses with C09's fold lemma and is stated, not machine-checked. Assumed: events arriving on the bus are non-seed *ValueChange/*CollectionChange values (a requires of the goroutine, discharged by Send's call sites when those are under contract), the read mask was validated, ctx.Done()/select are nondeterministic."),
 "C05": ("DESIGN.md §4 C05",
         "Deductive proof on the real masks.FieldUpdater code and the resource write path that uses it: Validate accepts exactly the masks inside the writable set (nil writable = everything) and rejects invalid paths with an error rather than a panic; Merge with a nil mask replaces the destination's content by the source's, with an empty-but-non-nil mask changes nothing, and with paths copies exactly the named fields (abstract message contents: merge/filter/union are uninterpreted functions related by the library contracts); WriteRequest.fieldUpdater intersects the request mask with the resource's writable fields; Value.set validates before any interceptor or store runs, so a rejected update leaves the stored value and the stream untouched.",
         "Message contents are abstract (ghost$msg): what fmutils.Filter/Prune, proto.Merge and fieldmaskpb.Union/Intersect do is an assumed library contract, so 'exactly the named fields' is proved relative to those. Collection.Update's use of the same writer is covered once Collection.Update is under contract."),
 "C06": ("DESIGN.md §4 C06",
         "Deductive proof on the real masks.ResponseFilter code and every read path that applies it (Value.get, ValueChange.filter, CollectionChange.filter, the two Pull goroutines): FilterClone never writes its argument, returns the argument itself only when no mask is set, otherwise a deep-fresh clone whose content is the projection; Filter (in place) is only applied to clones; a mask with no paths is the identity projection; the paths-valid precondition of fmutils.Filter is an obligation at each call, discharged from ResponseFilter.Validate/fieldUpdater validation where the message type can make the reflection walk panic.",
         "Projection is an uninterpreted function of (content, mask) constrained by the assumed fmutils contract; idempotence and path-by-path equality with the unmasked read are library facts, not proved. Read masks that nothing validates (generic message types reached through Collection.List with a caller-supplied mask) are reported by the paths-valid obligation where they occur."),
 "C20": ("DESIGN.md §4 C20",
         "Deductive proof on the real trait-model code: parentpb.traitUnion/traitRemove return the sorted duplicate-free union/difference for any sorted list and any names, without writing the list they were given (loop invariants over sort.Search's contract); vendingpb.updateStock/DispenseInstantly add to used and subtract from remaining floored at zero, each in its own unit, report conversion errors, never dereference an absent quantity; WithConsumablesOption/WithInventoryOption write only their own option list; unitpb.Convert32/Convert round trip within a category and report cross-category pairs; fanspeedpb.DeriveValues leaves preset, index and percentage describing the same preset (or none) for every preset list including the empty one, with precedence preset > index > percentage, and validateUpdate accepts exactly known presets; modepb.relativeAdjustment steps with mathematical wrap-around for every int32 step, NewModelModes keeps its argument; enter/leave totals, meter start/end times and the publication receipt/acknowledge rules hold for every stored value.",
         "Eleven genuine defects were found and repaired (known_findings.json, 'fixed'). Per-function contracts: the composition through Collection.Update/Value.Set (interceptor order, stored = returned) is C01's contract and is trusted here (NewValue, UpdatePublication, Clock are trusted stubs listed in the evidence). Float arithmetic is real arithmetic without rounding, so unit round trips are exact in the model. relativeAdjustment is proved for requests with at most one relative entry (entries are independent; stated bound). Publication version hashing (md5/fmt) is havocked."),
 "C01": ("DESIGN.md §4 C01",
         "Deductive proof on the real code, for every store content, every request and every combination of options (each option closure is proved to write exactly its own request field; requests are built by ComputeRead/WriteConfig over those), that one call at a time Value and Collection behave as a register and an id->message map: Value.get/Get return the stored value or its projection and change nothing; Value.set stores a fresh message, returns it and publishes exactly one event, and a failing set changes nothing and publishes nothing; Collection.Get answers from the (intercepted) id; itemSlice/List return exactly the items the request does not exclude, each once, List strictly sorted by id (permutation reasoning over sort.Slice's contract, completeness included); Collection.Update/Add/Delete return what the map semantics says, leave every other entry untouched, publish exactly one ADD/UPDATE/REMOVE event carrying old and new value and the stored change time, and a failing call (not found, already exists, precondition, invalid mask) changes nothing and publishes nothing; a generated id is non-empty, unused and finds the item again through the id interceptor.",
         "One genuine defect found and repaired (generated id stored under its raw instead of its intercepted form). Message contents are abstract (see C05/C06). Preconditions assumed of callers: options are non-nil, a collection holds one message type, the resource was built by its constructor (wfValue/wfColl). The reference model is the contract itself; sequences of calls compose through the representation invariant wfColl, which every operation re-establishes (proved)."),
 "C02": ("DESIGN.md §4 C02",
         "Deductive proof on the real code in interference mode: (1) GetAndUpdate, verified against arbitrary get/change/save callbacks (get's answers are unconstrained, i.e. any interleaving of other writers between its critical sections): a successful call re-reads under the write lock, the re-read value is proto.Equal to the value the change was computed from, save runs in that same lock acquisition (lock-generation ghost), with exactly that new value, exactly once; a failing call saves nothing; no lock is held during the change call; (2) Collection.Update and Collection.Delete with the map made arbitrary again at every lock acquisition (plus the lock invariant): the entry a commit overwrites holds a value Equal to the one the change saw, an id that was absent is still absent at commit, Delete removes exactly the item its preconditions were evaluated on in the critical section that re-checked it, and every commit installs a new item instead of editing one (Delete's pointer comparison relies on it); (3) the guarded-by discipline of C11.",
         "One genuine defect found and repaired (two concurrent Adds of one id both succeeded). The step from 'validate+commit in one exclusive section against the re-read state, losers change nothing' to linearizability of whole histories is the standard argument for optimistic concurrency and is stated in DESIGN.md, not machine-checked. Value.set relies on GetAndUpdate's contract plus its (sequentially proved) get/save closures. Interference is modelled at lock acquisitions of the resource's own mutex; callbacks are assumed not to touch the resource's guarded state except through its API."),
 "C12": ("DESIGN.md §4 C12, §8.2",
         "Narrow: the registry clause. Deductive proof on the real pkg/router code that the registry behaves as a map: Add returns the previous client and stores the new one, Remove returns and removes (no-op when absent), Has agrees with the map, every other name is untouched; change callbacks are called exactly once per transition, never for a no-op, and never while the lock is held (callback log with lock state); Get returns a registered client as it is without asking anybody, otherwise asks the fallback first and then the factory, remembers a factory client but not a fallback client, answers NotFound (nil client, registry untouched) when nobody has one; in interference mode (registry arbitrary again at every lock acquisition) the factory insert happens only while the name is still absent under the write lock and the call returns what the registry holds after that, so concurrent first Gets commit a single client.",
         "Not decided by this family and not claimed: the per-method forwarding of the ~65 generated routers and wrappers (request/response/stream/metadata pass-through), the default-name interceptor, and 'checked-in files equal generator output' (a diff against protoc output, which is not installed). Assumed: factory/fallback/onChange do not touch the router's registry directly; clients are non-nil (Add's precondition)."),
 "C03": ("DESIGN.md §4 C03, §8.2",
         "Narrow: the per-step facts convergence rests on, proved on the real code in interference mode. (1) Subscribing: Value.onUpdate and Collection.onUpdate take the snapshot and register the bus listener inside one critical section of the resource's lock (lock state and lock generation recorded at the tracked Listen/itemSlice calls), so no commit falls between snapshot and subscription; with updates-only no snapshot is taken. (2) The bus: Listen appends a fresh listener with an open channel under the write lock; Send offers the event to every listener of its snapshot exactly once, in registration order, stopping only when the sender's context is done; collect rebuilds the list only from the listeners registered at the moment it holds the write lock (a listener registered during an in-flight Send survives). (3) Per subscriber: the forwarding goroutines of C04 (seed first, then each event's include verdict, projected).",
         "Not decided: that the fold of what a real reader receives equals Get/List once writers stop (a whole-history statement over goroutine schedules and channel buffering; the lossy path additionally needs mergeCollectionExcess, which uses container/list and is outside the subset). Publish-after-unlock ordering of Value.Set/Collection.Update versus Delete (which publishes under the lock) is not analysed."),
 "C10": ("DESIGN.md §4 C10, §8.2",
         "Narrow: safety clauses of shutdown, proved on the real code in both sequential and interference mode: listener.send puts an event on the channel at most once and only while the channel is open (lock invariant 'ch == nil or not closed' under listener.m; a nil channel is never ready), and reports whether it did; listener.stop closes the channel exactly once and forgets it, so no later send can reach it and no double close can happen; Bus.Send/collect/Listen keep the listener list well formed; both Pull forwarding goroutines close their output on every exit path and never send on it after closing (C04).",
         "Not decided by contracts: deadlock freedom, goroutine termination, stall bounds, PullID ending on REMOVE (its goroutine is not under contract), DropExcess/mergeCollectionExcess exit conditions."),
}

NOT_APPLICABLE = {
 "C07": "Not claimed in this revision: the ownership ghost state (no write ever targets a message that is stored or was handed out) is not built. Individual isolation clauses are proved under other ids: every write stores a deep-fresh message that is neither the caller's nor the previous one and leaves the previous one untouched (C01 Value.set/Collection.Update fresh-store, old-untouched, items-immutable), reads filter clones only (C06), parent trait lists are copied before editing (C20, after a fix). masks.pruneEmpty (reflection walk) and the metadata/enter-leave models are not under contract.",
 "C14": "Not claimed: read-your-writes through wrapper, router and server is a property of ~30 generated/handwritten server stacks; the schematic checker over all servers was not built, and the forwarding code is mostly generated gRPC plumbing outside the VC subset. The register it rests on is C01/C04/C06.",
 "C19": "Not claimed in this revision: the electric model's invariants speak about field values (normal, id) of messages stored through Collection.Update, whose contents are abstract in the resource contracts (merge semantics are an assumed library contract), so 'at most one normal mode' cannot be carried through the store modularly; contracts for the control-flow clauses (delete refuses the active id, start-time stamp, not-found table) are not written yet.",
 "C13": "Differential property against grpc-go's transport (an external implementation with no contract); mechanism is goroutines on unbuffered channels + context cancellation, outside the contract/VC subset. Only peripheral clauses would be reachable, so it is not claimed (DESIGN.md §4 C13).",
}

PENDING_REASON = "contracts for this property are not yet written in this revision of /verif (engine feature or contract file pending); not claimed until obligations discharge on the real code"

def main():
    props = [json.loads(l)["id"] for l in open(os.path.join(ROOT, "properties.jsonl"))]
    try:
        commits = subprocess.check_output(["git", "-C", "/repo", "log", "--format=%H %s", "1b269bb..HEAD"], text=True).strip().splitlines()
    except Exception:
        commits = []
    hook_commits = [c.split()[0] for c in commits if c.split(" ", 1)[1].startswith("verif:")]
    checks = []
    for pid in props:
        if pid not in CLAIMED:
            continue
        ref, text, note = CLAIMED[pid]
        checks.append({
            "property_id": pid,
            "quick_cmd": f"bin/vf check {pid} --tier quick",
            "thorough_cmd": f"bin/vf check {pid} --tier thorough",
            "evidence_file": f"/verif/evidence/{pid}.json",
            "replay_cmd_template": "bin/vf replay {path}",
            "engine": "vf",
            "level_claimed": {"category": "proof", "text": text, "design_ref": ref},
            "level_note": note,
            "technique": "contract-based deductive verification: weakest-precondition VCs over go/ssa of the real functions, contracts in //go:build verif comment files, discharged by z3/cvc5",
        })
    na = []
    for pid in props:
        if pid in CLAIMED:
            continue
        na.append({"property_id": pid, "reason": NOT_APPLICABLE.get(pid, PENDING_REASON)})
    m = {
        "version": 1,
        "setup_cmd": f"cd /verif/vf && {ENV} go build -o /verif/bin/vf .",
        "hooks": {
            "guard": "verif",
            "enable": "-tags=verif (comment-only verif_contracts.go files; no executable hooks)",
            "baseline_off_cmd": f"cd /repo && {ENV} go test -json -vet=off -count=1 -timeout 25m ./...",
            "source_commits": hook_commits,
            "add_only": True,
        },
        "engines": [{
            "name": "vf",
            "path": "/verif/vf",
            "serves_properties": sorted(CLAIMED),
            "kind_free_text": "verification-condition generator for a stated Go subset over go/ssa (x/tools v0.29.0) + SMT portfolio (z3-new 5.1.0, cvc5 1.0, z3 4.8.12); counterexample replay on the real code via go test -overlay",
        }],
        "checks": checks,
        "not_applicable": na,
        "notes": "Contracts live in /repo/**/verif_contracts.go behind //go:build verif. known_findings.json lists recorded findings and fixed defects. See DESIGN.md.",
    }
    json.dump(m, open(os.path.join(ROOT, "MANIFEST.json"), "w"), indent=1)
    print("MANIFEST.json:", len(checks), "checks,", len(na), "not applicable")

if __name__ == "__main__":
    main()
