#!/usr/bin/env python3
"""dbgq.py <query.smt2>: diagnose a failing obligation: (1) is the quantifier-free relaxation sat? with which values of
the given terms; (2) which quantified assumption, when dropped, lets the solver finish."""
import sys, subprocess, re
f = sys.argv[1]
s = open(f).read().split('\n')
def run(lines, t=8, extra=''):
    open('/tmp/_dbg.smt2', 'w').write('\n'.join(lines) + extra)
    r = subprocess.run(['z3-new', f'-T:{t}', '/tmp/_dbg.smt2'], capture_output=True, text=True).stdout
    return r.split('\n')[0], r
qs = [i for i, l in enumerate(s) if l.startswith('(assert') and ('(forall' in l or '(exists' in l) and not l.startswith('(assert (not')]
print('lines', len(s), 'quantified assumptions', len(qs))
st, out = run(s)
print('full:', st)
st, out = run([l for i, l in enumerate(s) if i not in qs])
print('quantifier-free relaxation:', st)
if len(sys.argv) > 2 and st == 'sat':
    terms = ' '.join(sys.argv[2:])
    ls = [l for i, l in enumerate(s) if i not in qs]
    ls = [l for l in ls if not l.startswith('(get-value')]
    st, out = run(ls, extra=f'\n(get-value ({terms}))\n')
    print(out[:3000])
if '--bisect' in sys.argv:
    for i in qs:
        st, _ = run([l for j, l in enumerate(s) if j != i], t=5)
        if st != 'timeout':
            print(st, 'without', s[i][:160])
