#!/bin/bash
# usage: rebase_seed.sh <tag> — re-creates seeded/<tag>/patch.diff against /repo's current tree when fix commits moved its context
set -eu
T=$1; S=/verif/seeded/$T
D=$(mktemp -d /var/tmp/vf-rebase-XXXXXX); trap 'rm -rf "$D"' EXIT
(cd /repo && git ls-files -z | xargs -0 cp --parents -t "$D")
cd "$D" && git init -q . && git add -A >/dev/null && git -c user.email=x -c user.name=x commit -qm base
if git apply --whitespace=nowarn "$S/patch.diff" 2>/dev/null; then echo "applies cleanly"; exit 0; fi
patch -p1 --fuzz=3 --no-backup-if-mismatch < "$S/patch.diff" || { echo "REBASE-FAILED"; exit 1; }
find . -name '*.orig' -delete; find . -name '*.rej' -delete
cp "$S/patch.diff" "$S/patch.orig.diff"
git diff > "$S/patch.diff"
echo "rebased $T"
