#!/bin/bash
# Runs the must-fail corpus (selftest/mutants: each must make its property's check exit 1) and the must-pass corpus
# (selftest/mustpass: semantics-preserving edits, each must leave the check at exit 0).  Optional filter: $1.
cd /verif
fail=0
for f in selftest/mutants/*${1:-}*.patch; do
  [ -e "$f" ] || continue
  pid=$(basename $f | cut -d- -f1)
  out=$(MUT_LINES=3 tools/mutcheck.sh $f $pid 1 2>&1 | grep -v WARNING)
  if echo "$out" | grep -q MUTCHECK-OK; then echo "killed   $f: $(echo "$out" | grep -m1 VIOLATION | sed 's/.*replay=<out>.replays.//')"; else echo "SURVIVED $f"; echo "$out" | tail -3; fail=1; fi
done
for f in selftest/mustpass/*${1:-}*.patch; do
  [ -e "$f" ] || continue
  pid=$(basename $f | cut -d- -f1)
  out=$(MUT_LINES=2 tools/mutcheck.sh $f $pid 0 2>&1 | grep -v WARNING)
  if echo "$out" | grep -q MUTCHECK-OK; then echo "passes   $f"; else echo "FALSE-ALARM $f"; echo "$out" | tail -4; fail=1; fi
done
exit $fail
