#!/bin/bash
# usage: keep_seed.sh <tag> <property> "<needs>"   — after verify_seed.sh confirmed it
set -eu
T=$1; P=$2; NEEDS=$3
S=/tmp/seeded-out/$T; D=/verif/seeded/$T
mkdir -p $D
cp $S/patch.diff $S/demo_test.go $S/demo_path.txt $D/
[ -f $S/notes.md ] && cp $S/notes.md $D/
python3 - <<PY
import json
json.dump({"id":"$T","property":"$P","needs_to_manifest":"""$NEEDS""",
 "confirmed_by":"tools/verify_seed.sh seeded/$T on a scratch copy of /repo: patch applies and builds, existing suite passes with it, demo fails with it, demo passes without it",
 "source":"independent sub-agent given only the property text and a scratch worktree"}, open("$D/meta.json","w"), indent=1)
PY
echo kept $D
