#!/bin/bash
# usage: fastcheck.sh <patch> <property> <obligation-file-name-or-empty>
# Re-validates that a patch is still reported: first only the function that reported it before (fast), and when that no
# longer reports it, the whole property check.  Prints "caught <first violation>" or "MISSED".
PATCH=$1; PID=$2; PREV=$3
fn=""
if [ -n "$PREV" ]; then
  # C05/masks.__FieldUpdater_.Validate#post.x.json -> masks.(*FieldUpdater).Validate ; keep a distinctive tail as --only substring
  base=$(basename "$PREV" | sed 's/#.*//; s/_INT$//')
  fn=$(echo "$base" | sed 's/.*\.__\([A-Za-z_]*\)_\./\1)./; s/.*\._\([A-Za-z]*\)_\./\1)./' | sed 's/^[a-z_]*\.//')
fi
if [ -n "$fn" ]; then
  out=$(VF_NORETRY=1 MUT_LINES=8 /verif/tools/mutonly.sh "$PATCH" "$PID" "$fn" 2>&1 | grep -m1 VIOLATION | sed 's/.*replays\///')
  if [ -n "$out" ]; then echo "caught(fast) $out"; exit 0; fi
fi
out=$(MUT_LINES=1 /verif/tools/mutcheck.sh "$PATCH" "$PID" 1 2>&1 | grep -v WARNING)
if echo "$out" | grep -q MUTCHECK-OK; then echo "caught $(echo "$out" | grep -m1 VIOLATION | sed 's/.*replays\/[^\/]*\///')"; exit 0; fi
echo "MISSED"; exit 1
