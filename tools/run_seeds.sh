#!/bin/bash
# Runs every kept seeded change against the check of its property (and optional extra properties) on a scratch copy;
# prints one line per seed: <tag> <property> caught|MISSED <first reporting obligation>
cd /verif
for d in seeded/*/; do
  t=$(basename $d)
  p=$(python3 -c "import json;print(json.load(open('$d/meta.json'))['property'])")
  if ! python3 - "$p" <<'PY'
import json,sys
m=json.load(open('/verif/MANIFEST.json'))
sys.exit(0 if any(c['property_id']==sys.argv[1] for c in m['checks']) else 1)
PY
  then echo "$t $p not-claimed"; continue; fi
  out=$(MUT_LINES=1 tools/mutcheck.sh $d/patch.diff $p 1 2>&1 | grep -v WARNING)
  if echo "$out" | grep -q MUTCHECK-OK; then echo "$t $p caught $(echo "$out" | grep -m1 VIOLATION | sed 's/.*replays\/[^\/]*\///; s/\.json.*//')"; else echo "$t $p MISSED $(echo "$out" | grep -m1 'PATCH-DOES\|does not' )"; fi
done
