#!/bin/bash
# usage: verify_seed.sh <dir with patch.diff demo_test.go demo_path.txt> 
# Confirms on a scratch copy of /repo's current tree: patch applies, builds, existing suite passes with it,
# demo fails with it, demo passes without it.
set -u
S=$(readlink -f "$1")
export GOFLAGS=-mod=mod GOPROXY=off GOSUMDB=off GOTOOLCHAIN=local
D=$(mktemp -d /var/tmp/vf-seed-XXXXXX)
trap 'rm -rf "$D"' EXIT
(cd /repo && git ls-files -z | xargs -0 cp --parents -t "$D")
cd "$D"
DEMO_REL=$(grep -o '[A-Za-z0-9_./-]*_test\.go' "$S/demo_path.txt" | head -1)
RUNPAT=$(grep -o '\-run [^ ]*' "$S/demo_path.txt" | head -1 | cut -d' ' -f2 | tr -d "'\"")
[ -z "$RUNPAT" ] && RUNPAT=$(grep -o 'func Test[A-Za-z0-9_]*' "$S/demo_test.go" | head -1 | cut -d' ' -f2)
PKGDIR=$(dirname "$DEMO_REL")
RACE=""; grep -q -- "-race" "$S/demo_path.txt" && RACE="-race"
echo "demo at $DEMO_REL, run pattern $RUNPAT"
cp "$S/demo_test.go" "$D/$DEMO_REL"
go test $RACE -vet=off -count=1 -run "$RUNPAT" "./$PKGDIR/" > "$D/.demo_clean.log" 2>&1; R_CLEAN=$?
rm "$D/$DEMO_REL"
git init -q . 2>/dev/null
git apply --whitespace=nowarn "$S/patch.diff" || { echo "SEED-FAIL patch does not apply to the current tree"; exit 3; }
go build ./... > "$D/.build.log" 2>&1 || { echo "SEED-FAIL does not build"; tail -5 "$D/.build.log"; exit 3; }
go test -vet=off -count=1 ./... > "$D/.suite.log" 2>&1; R_SUITE=$?
cp "$S/demo_test.go" "$D/$DEMO_REL"
go test $RACE -vet=off -count=1 -run "$RUNPAT" "./$PKGDIR/" > "$D/.demo_mut.log" 2>&1; R_MUT=$?
echo "suite-with-change=$R_SUITE demo-with-change=$R_MUT demo-without-change=$R_CLEAN"
if [ $R_SUITE -ne 0 ]; then grep -v '^ok\|no test files' "$D/.suite.log" | head -10; fi
if [ $R_CLEAN -ne 0 ]; then tail -8 "$D/.demo_clean.log"; fi
if [ $R_SUITE -eq 0 ] && [ $R_MUT -ne 0 ] && [ $R_CLEAN -eq 0 ]; then echo "SEED-CONFIRMED"; exit 0; fi
echo "SEED-NOT-CONFIRMED"; exit 1
