#!/bin/bash
# Runs every generated C12 replay driver against a tree (default /repo): on a tree where C14 holds each must PASS.
export GOFLAGS=-mod=mod GOPROXY=off GOSUMDB=off GOTOOLCHAIN=local
ROOT=${1:-/repo}; FILTER=${2:-}
D=$(mktemp -d /var/tmp/vf-drv-XXXX); trap 'rm -rf $D' EXIT
fail=0
for f in /verif/replay/drivers/C12_*${FILTER}*.go.tmpl; do
  pkg=$(head -1 $f | sed 's#//vf:pkg ##')
  sed 1d $f > $D/zz_vf_test.go
  echo "{\"Replace\":{\"$ROOT/$pkg/zz_vf_test.go\":\"$D/zz_vf_test.go\"}}" > $D/ov.json
  out=$(cd $ROOT && go test -overlay $D/ov.json -vet=off -timeout 120s -count=1 -run 'TestVFReplay$' ./$pkg/ 2>&1)
  if echo "$out" | grep -q "^ok"; then echo "pass $(basename $f)"; else echo "FAIL $(basename $f)"; echo "$out" | head -8; fail=1; fi
done
exit $fail
