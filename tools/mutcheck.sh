#!/bin/bash
# usage: mutcheck.sh <patch-file> <property> [expected-exit]
# Applies a patch to a scratch copy of /repo (outside /repo and /verif), runs the property's check against
# the copy, prints the outcome, removes the copy.  Exit 0 iff the check's exit status equals the expectation.
set -u
PATCH=$(readlink -f "$1"); PID=$2; WANT=${3:-1}
export GOFLAGS=-mod=mod GOPROXY=off GOSUMDB=off GOTOOLCHAIN=local
D=$(mktemp -d /var/tmp/vf-mut-XXXXXX)
trap 'rm -rf "$D"' EXIT
mkdir -p "$D/repo" "$D/out"
(cd /repo && git ls-files -z | xargs -0 cp --parents -t "$D/repo") 
(cd "$D/repo" && git init -q . 2>/dev/null; git apply --whitespace=nowarn "$PATCH") || { echo "PATCH-DOES-NOT-APPLY $PATCH"; exit 3; }
if [ -n "${MUT_BUILD:-}" ]; then (cd "$D/repo" && go build ./... ) || { echo "MUTANT-DOES-NOT-BUILD"; exit 3; }; fi
VF_REPO="$D/repo" VF_OUT="$D/out" /verif/bin/vf check "$PID" ${VF_ARGS:-} > "$D/out/stdout" 2> "$D/out/stderr"
GOT=$?
grep -h "VIOLATION\|KNOWN-FINDING\|UNDECIDED" "$D/out/stdout" | sed "s#$D/out#<out>#" | head -${MUT_LINES:-6}
tail -1 "$D/out/stderr"
if [ "$GOT" = "$WANT" ]; then echo "MUTCHECK-OK exit=$GOT"; exit 0; else echo "MUTCHECK-UNEXPECTED exit=$GOT want=$WANT"; exit 1; fi
