#!/bin/bash
# Quick re-validation after an engine or contract change: every must-fail mutant and every kept seed is still reported
# (first by the function that reported it in an earlier run, PREV_SELFTEST_LOGS / PREV_SEEDS_LOG, else by the whole check),
# every must-pass refactoring still passes.
cd /verif
echo "== mutants"
for f in selftest/mutants/*.patch; do
  pid=$(basename $f | cut -d- -f1)
  prev=$(grep -h "killed   $f:" ${PREV_SELFTEST_LOGS:-/dev/null} 2>/dev/null | head -1 | sed 's/^killed   [^:]*: //; s/ .*//')
  echo "$(basename $f) $(tools/fastcheck.sh $f $pid "$prev")"
done
echo "== mustpass"
for f in selftest/mustpass/*.patch; do
  pid=$(basename $f | cut -d- -f1)
  out=$(MUT_LINES=2 tools/mutcheck.sh $f $pid 0 2>&1 | grep -v WARNING)
  if echo "$out" | grep -q MUTCHECK-OK; then echo "$(basename $f) passes"; else echo "$(basename $f) FALSE-ALARM $(echo "$out" | grep -m1 VIOLATION)"; fi
done
echo "== seeds"
for d in seeded/*/; do
  t=$(basename $d)
  p=$(python3 -c "import json;print(json.load(open('$d/meta.json'))['property'])")
  prev=$(grep -h "^$t $p caught" ${PREV_SEEDS_LOG:-/dev/null} 2>/dev/null | head -1 | awk '{print $4}')
  echo "$t $p $(tools/fastcheck.sh $d/patch.diff $p "$prev")"
done
echo "== done"
